#!/bin/sh
# runs every check's quick (or $1) tier sequentially; prints one status line each
tier=${1:-quick}
for n in 01 02 03 04 05 06 07 08 09 10 11 12 13 14 15 16 17 18 19; do
  id=C$n
  s=$(date +%s)
  out=$(/verif/run.sh $id $tier 2>&1); rc=$?
  e=$(date +%s)
  echo "$id rc=$rc $((e-s))s $(echo "$out" | grep -c '^VIOLATION') violations $(echo "$out" | grep -c '^KNOWN-FINDING') known | $(echo "$out" | head -1 | cut -c1-150)"
done
