#!/usr/bin/env python3
import json,sys,glob
import jsonschema
ms=json.load(open('/root/.vp/MANIFEST.schema.json')); es=json.load(open('/root/.vp/EVIDENCE.schema.json'))
ok=True
try:
    m=json.load(open('/verif/MANIFEST.json')); jsonschema.validate(m,ms); print('MANIFEST ok', len(m['checks']),'checks')
except Exception as e:
    ok=False; print('MANIFEST invalid:',str(e)[:500])
for f in sorted(glob.glob('/verif/evidence/*.json')):
    try:
        e=json.load(open(f)); jsonschema.validate(e,es); print(f,'ok',e['tier'],e['level'],'evals',e['coverage'].get('evaluations'),'nontriv',e['coverage'].get('distinct_nontrivial'),'exh',e['coverage'].get('exhaustive'),'wall',round(e['wall_s'],1))
    except Exception as ex:
        ok=False; print(f,'INVALID',str(ex)[:500])
sys.exit(0 if ok else 1)
