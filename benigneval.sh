#!/bin/bash
# usage: benigneval.sh <dir with patch.diff NOTES.md> <id>  — applies a property-preserving change, runs the repo
# suite and EVERY check (quick); any rc!=0 is a false alarm (or a harness build break).
# Default: applies to /repo and reverts.  BENIGN_ALT=1: uses a scratch worktree + experiment mode (parallel-safe).
export GOFLAGS=-mod=mod GOPROXY=off GOSUMDB=off GOTOOLCHAIN=local
src=$1; id=$2
dst=/verif/seeded/benign-$id
mkdir -p $dst; [ "$src" -ef "$dst" ] || { cp $src/patch.diff $dst/; cp $src/NOTES.md $dst/ 2>/dev/null; }
cd /verif
if [ -n "$BENIGN_ALT" ]; then
  wt=/tmp/bv-$id
  git -C /repo worktree remove --force $wt 2>/dev/null
  git -C /repo worktree add -q $wt HEAD || exit 2
  if ! (cd $wt && git apply $dst/patch.diff 2>$dst/apply.err); then echo "$id: patch does not apply"; git -C /repo worktree remove --force $wt; exit 1; fi
  suite=fail; (cd $wt && go build ./... && go test -vet=off -count=1 ./... ) > $dst/suite.log 2>&1 && suite=pass
  export VERIF_ALT_REPO=$wt
else
  if ! git -C /repo apply $dst/patch.diff 2>$dst/apply.err; then echo "$id: patch does not apply"; exit 1; fi
  suite=fail; /verif/repotest.sh > $dst/suite.log 2>&1 && suite=pass
fi
res=""; alarms=""
rm -f $dst/alarm-C*.txt
for n in ${BENIGN_CHECKS:-01 02 03 04 05 06 07 08 09 10 11 12 13 14 15 16 17 18 19}; do
  out=$(/verif/run.sh C$n quick 2>&1); rc=$?
  res="$res C$n:$rc"
  if [ $rc != 0 ]; then alarms="$alarms C$n"; echo "$out" | grep -v '^  clause\|^  family' | head -30 > $dst/alarm-C$n.txt; fi
done
if [ -n "$BENIGN_ALT" ]; then
  rm -rf /verif/.work/alt-$(echo "$wt" | md5sum | cut -c1-10)
  git -C /repo worktree remove --force $wt
else
  git -C /repo checkout -q -- .; git -C /repo clean -fdq
fi
if [ -n "$BENIGN_NOMETA" ]; then echo "benign $id suite $suite alarms: ${alarms:-none} (checks:$res)"; exit 0; fi
python3 - "$id" "$suite" "$alarms" "$res" <<'PY'
import json,sys
id,suite,alarms,res=sys.argv[1:]
json.dump({"id":"benign-"+id,"kind":"property-preserving change written by an independent sub-agent (see NOTES.md)","repo_test_suite_with_patch":suite,
 "checks_run_quick":res.split(),"alarms":alarms.split()},open(f"/verif/seeded/benign-{id}/meta.json","w"),indent=1)
print("benign",id,"suite",suite,"alarms:",alarms or "none")
PY
