#!/bin/bash
# usage: alttest.sh <seed-id|none> <check> [tier]  — runs a check against a scratch worktree of /repo HEAD with /verif/seeded/<seed-id>/patch.diff applied
# (experiment helper; /repo's working tree and /verif/evidence are not touched)
id=$1; chk=$2; tier=${3:-quick}
wt=/tmp/alt-$id-$chk-$$
git -C /repo worktree add -q $wt HEAD || exit 2
if [ "$id" != none ]; then (cd $wt && git apply /verif/seeded/$id/patch.diff) || { echo "patch does not apply"; git -C /repo worktree remove --force $wt; exit 2; }; fi
VERIF_ALT_REPO=$wt /verif/run.sh $chk $tier; rc=$?
A=/verif/.work/alt-$(echo "$wt" | md5sum | cut -c1-10)
[ -n "$KEEP" ] || rm -rf $A
git -C /repo worktree remove --force $wt
exit $rc
