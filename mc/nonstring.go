package main

// Non-string items for the renderers' own checks (C03 text, C05 csv): a cell shows whatever the documented
// ladder (C01) makes of its item - a rune, a number, a Stringer, an error, a slice - and the renderer must treat
// that text like any other.

import (
	"fmt"
	"strings"
	"unicode/utf8"

	"go.pennock.tech/tabular"
	"go.pennock.tech/tabular/csv"
	thtml "go.pennock.tech/tabular/html"
	"go.pennock.tech/tabular/texttable"
)

type nsItem struct {
	name string
	item interface{}
}

func nonStringItems() []nsItem {
	return []nsItem{{"rune \"", '"'}, {"rune ,", ','}, {"rune LF", '\n'}, {"rune CR", '\r'}, {"rune |", '|'}, {"rune <", '<'}, {"rune a", 'a'}, {"wide rune", 'ｗ'}, {"combining rune", '́'},
		{"int32(-1)", int32(-1)}, {"rune 0x110000", rune(0x110000)}, {"surrogate", rune(0xD800)}, {"rune NUL", rune(0)}, {"rune TAB", '\t'},
		{"int", 7}, {"float", -1.5}, {"bool", true}, {"nil", nil}, {"byte \"", byte('"')}, {"Stringer a\",b", hostileStringer{"a\",b\nc"}}, {"error", myErr{"e\"r,r"}},
		{"[]string", []string{"a,b", "c\"d"}}, {"map", map[string]string{"k,": "\"v\""}}, {"named string with String()", namedS("p,q")}, {"Cell(rune \")", tabular.NewCell('"')}}
}

func runC05Items(x *X) {
	items := nonStringItems()
	x.Explore("non-string-items", ExploreOpts{ShardDepth: 1, Bound: fmt.Sprintf("%d items that are not strings (runes incl. quote, comma, CR, LF and non-code-points; numbers; Stringers; errors; slices; maps; nested cells) x header | body position", len(items))}, func(c *Chooser) {
		it := items[c.Choose(len(items))]
		hdr := c.Bool()
		text := tabular.NewCell(it.item).String()
		g := &Grid{HasHeader: true, Header: []string{"h1", "h2"}, Rows: []GridRow{{Cells: []string{"a", "b"}}}}
		t := csv.New()
		if hdr {
			g.Header[1] = text
			t.AddHeaders("h1", it.item)
			t.AddRowItems("a", "b")
		} else {
			g.Rows[0].Cells[0] = text
			t.AddHeaders("h1", "h2")
			t.AddRowItems(it.item, "b")
		}
		c.Logf("csv table with item %s (shown as %q) in the %s", it.name, text, map[bool]string{true: "header", false: "body"}[hdr])
		x.Transition(1)
		x.Nontrivial(it.name + fmt.Sprint(hdr))
		tags := append(g.Tags(), "non_string_item")
		var out string
		var err error
		if p, val, site := Safe(func() { out, err = t.Render() }); p {
			x.FailSite("C05.no_panic", append(tags, "panic"), site, "csv Render panicked: %v with item %s", val, it.name)
			return
		}
		c05Judge(x, g, tags, out, err)
	})
}

func runC03Items(x *X) {
	items := nonStringItems()
	x.Explore("non-string-items", ExploreOpts{ShardDepth: 1, Bound: fmt.Sprintf("%d items that are not strings x header | body | alone in its column x 2 decorations", len(items))}, func(c *Chooser) {
		it := items[c.Choose(len(items))]
		pos := c.Choose(3)
		dc := []DecorChoice{namedDecor("ascii-simple"), namedDecor("utf8-heavy")}[c.Choose(2)]
		text := tabular.NewCell(it.item).String()
		if !c18SelfConsistent(text) {
			return
		}
		tt := texttable.New()
		tg := &TGrid{}
		switch pos {
		case 0:
			tt.AddHeaders("h1", it.item)
			tt.AddRowItems("a", "b")
			tg.HasHeader, tg.Header = true, []TCell{{Text: "h1"}, {Text: text}}
			tg.Rows = []TRow{{Cells: []TCell{{Text: "a"}, {Text: "b"}}}}
		case 1:
			tt.AddHeaders("h1", "h2")
			tt.AddRowItems(it.item, "b")
			tg.HasHeader, tg.Header = true, []TCell{{Text: "h1"}, {Text: "h2"}}
			tg.Rows = []TRow{{Cells: []TCell{{Text: text}, {Text: "b"}}}}
		default:
			tt.AddRowItems("a", it.item)
			tt.AddRowItems("b")
			tg.Rows = []TRow{{Cells: []TCell{{Text: "a"}, {Text: text}}}, {Cells: []TCell{{Text: "b"}}}}
		}
		if err := dc.Apply(tt); err != nil {
			panic("harness: " + err.Error())
		}
		c.Logf("text table with item %s (shown as %q), position %d, decoration %s", it.name, text, pos, dc.Name)
		x.Transition(1)
		x.Nontrivial(fmt.Sprint(it.name, pos, dc.Name))
		var out string
		var err error
		if p, val, site := Safe(func() { out, err = tt.Render() }); p {
			x.FailSite("C03.no_panic", []string{"non_string_item", "panic"}, site, "text Render panicked: %v with item %s", val, it.name)
			return
		}
		judgeTextTable(x, "C03", tg, dc, []string{"non_string_item"}, out, err)
	})
}

func runC06Items(x *X) {
	items := nonStringItems()
	x.Explore("non-string-items", ExploreOpts{ShardDepth: 1, Bound: fmt.Sprintf("%d items that are not strings x header | body position", len(items))}, func(c *Chooser) {
		it := items[c.Choose(len(items))]
		hdr := c.Bool()
		text := tabular.NewCell(it.item).String()
		if strings.ContainsAny(text, "\x00") || !utf8.ValidString(text) {
			return // html/template replaces NUL and invalid UTF-8 by design (outside C06's alphabet)
		}
		g := &Grid{HasHeader: true, Header: []string{"h1", "h2"}, Rows: []GridRow{{Cells: []string{"a", "b"}}}}
		t := thtml.New()
		if hdr {
			g.Header[1] = text
			t.AddHeaders("h1", it.item)
			t.AddRowItems("a", "b")
		} else {
			g.Rows[0].Cells[0] = text
			t.AddHeaders("h1", "h2")
			t.AddRowItems(it.item, "b")
		}
		c.Logf("html table with item %s (shown as %q) in the %s", it.name, text, map[bool]string{true: "header", false: "body"}[hdr])
		x.Transition(1)
		x.Nontrivial(it.name + fmt.Sprint(hdr))
		var out string
		var err error
		if p, val, site := Safe(func() { out, err = t.Render() }); p {
			x.FailSite("C06.no_panic", []string{"non_string_item", "panic"}, site, "html Render panicked: %v with item %s", val, it.name)
			return
		}
		x.Clause("C06.succeeds")
		if err != nil {
			x.Fail("C06.succeeds", []string{"non_string_item"}, "html Render failed: %v with item %s", err, it.name)
			return
		}
		c06Validate(x, &c06Input{g: g}, g, []string{"non_string_item"}, out, nil, 0)
	})
}
