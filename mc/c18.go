package main

import (
	"fmt"
	"strings"
	"time"

	"go.pennock.tech/tabular"
	"go.pennock.tech/tabular/length"
	"go.pennock.tech/tabular/properties/align"
	"go.pennock.tech/tabular/texttable"
)

// C18 — line and width metrics are mutually consistent.

var c18Atoms = []string{"\n", "a", " ", "é", "́", "ｗ", "​", "\U0001F469‍\U0001F467", "\xff", "\t", "\x7f"}

func init() {
	register(&Check{
		ID:        "C18",
		Level:     "exploration",
		Technique: "bounded exhaustive enumeration of all strings over an 11-atom alphabet, each run through the real metric functions, cells and text renderer",
		Rule: "family twin-texts: a plain cell and a size-declaring cell holding byte-identical text in one table (measurements must not leak between cells), 4 texts x declared sizes x positions x 2 decorations, compared with the reference renderer; family strings: all strings over the alphabet {LF, a, space, e-acute, lone combining acute, fullwidth w, zero-width space, woman-ZWJ-girl emoji sequence, invalid byte 0xff, TAB, DEL} " +
			"up to length 5 (quick) / 7 (thorough), enumerated completely; a case is non-trivial when the string contains a line feed or a non-ASCII/zero-width atom; distinct by string value",
		Assumptions: []string{
			"display width is the library's own measure (length.StringCells); RUNEWIDTH_EASTASIAN=0 LC_ALL=C pinned (thorough repeats nothing under East-Asian width: covered by C03's configuration sweep)",
			"strings longer than the bound and characters outside the alphabet are not covered",
		},
		QuickBudget:    90 * time.Second,
		ThoroughBudget: 15 * time.Minute,
		Run:            runC18,
	})
}

func runC18(x *X) {
	// the layout and emit passes must also agree for a plain cell whose text is shared, byte for byte,
	// with a cell whose item declares its own size (measurements must not leak between cells)
	twin := []string{"identical-long-text-0123456789", "short", "é-wide-ｗｗｗｗｗｗｗｗｗｗ", "two\nlines-identical-0123456789"}
	x.Explore("twin-texts", ExploreOpts{ShardDepth: 2, Bound: "4 texts x declared width {1, text+3} / height {none, lines+2} on a sibling cell with identical text x position x 2 decorations"}, func(c *Chooser) {
		text := twin[c.Choose(len(twin))]
		a := TCell{Text: text}
		tw, nl := a.width(), len(a.lines())
		a.DeclW = []*int{ip(1), ip(tw + 3)}[c.Choose(2)]
		a.DeclH = []*int{nil, ip(nl + 2)}[c.Choose(2)]
		b := TCell{Text: text}
		order := c.Choose(3)
		dc := []DecorChoice{namedDecor("ascii-simple"), namedDecor("utf8-heavy")}[c.Choose(2)]
		tg := &TGrid{HasHeader: true, Header: []TCell{{Text: "h1"}, {Text: "a header that is much wider than every cell below it, really"}}}
		switch order {
		case 0:
			tg.Rows = []TRow{{Cells: []TCell{a, b}}}
		case 1:
			tg.Rows = []TRow{{Cells: []TCell{b, a}}}
		default:
			tg.Rows = []TRow{{Cells: []TCell{a}}, {Cells: []TCell{{Text: "x"}, b}}}
		}
		c.Logf("decoration=%s table=%s", dc.Name, tg)
		x.Transition(1)
		x.Nontrivial(dc.Name + tg.String())
		compareTextTable(x, "C18", tg, dc, []string{"twin_texts"})
	})
	// the layout and emit passes must still agree when a cell's text CHANGES between two renders of one wrapper
	// (whatever a render remembers about a cell's measurements must follow Update and Row.Add)
	var shorts []string
	shorts = append(shorts, "")
	for _, a := range c18Atoms {
		shorts = append(shorts, a)
		for _, b := range c18Atoms {
			shorts = append(shorts, a+b)
		}
	}
	x.Explore("re-render-after-update", ExploreOpts{ShardDepth: 2, Bound: fmt.Sprintf("%d x %d strings of <=2 atoms: one wrapper renders a table whose first cell shows s1, the item is changed to s2 + Update (or a cell with s2 is added to the attached row), the same wrapper renders again", len(shorts), len(shorts))}, func(c *Chooser) {
		s1, s2 := shorts[c.Choose(len(shorts))], shorts[c.Choose(len(shorts))]
		how := c.Choose(2)
		if !c18SelfConsistent(s1) || !c18SelfConsistent(s2) {
			return
		}
		it, setF := mkItem(mS, true, ItemF{S: s1})
		tt := texttable.New()
		tt.AddRowItems(it, "x")
		tt.AddRowItems("yy")
		dc := namedDecor("ascii-simple")
		if err := dc.Apply(tt); err != nil {
			panic("harness: " + err.Error())
		}
		tg := &TGrid{Rows: []TRow{{Cells: []TCell{{Text: s1}, {Text: "x"}}}, {Cells: []TCell{{Text: "yy"}}}}}
		c.Logf("table [%q x] [yy]; Render; then %s with %q; Render on the same wrapper", s1, []string{"item changed + Update", "a third cell added to the attached first row"}[how], s2)
		tags := append(c18Tags(s1+s2), "re_render_after_update")
		for pass := 0; pass < 2; pass++ {
			var out string
			var err error
			if p, val, site := Safe(func() { out, err = tt.Render() }); p {
				x.FailSite("C18.layout_emit", append(tags, "panic"), site, "render %d panicked: %v", pass+1, val)
				return
			}
			judgeTextTable(x, "C18", tg, dc, tags, out, err)
			if pass == 0 {
				if how == 0 {
					setF(ItemF{S: s2})
					cp, _ := tt.CellAt(tabular.CellLocation{Row: 1, Column: 1})
					cp.Update()
					tg.Rows[0].Cells[0].Text = s2
				} else {
					tt.AllRows()[0].Add(tabular.NewCell(s2))
					tg.Rows[0].Cells = append(tg.Rows[0].Cells, TCell{Text: s2})
				}
				x.Transition(1)
			}
		}
		x.State(s1 + "\x00" + s2)
		x.Nontrivial(fmt.Sprint(how, s1, "\x00", s2))
	})
	x.Explore("very-long-lines", ExploreOpts{ShardDepth: 1, Bound: "strings with one line of 65535 / 65536 / 65537 / 70000 / 200000 bytes (ASCII or two-byte runes), alone, first, in the middle or last among short lines: longest-line measures and cell size"}, func(c *Chooser) {
		n := []int{65535, 65536, 65537, 70000, 200000}[c.Choose(5)]
		wide := c.Bool()
		pos := c.Choose(4)
		long := strings.Repeat("x", n)
		cells := n
		if wide {
			long = strings.Repeat("é", n/2)
			cells = n / 2
		}
		s := []string{long, long + "\nshort", "a\n" + long + "\nbb", "short\n" + long}[pos]
		c.Logf("a line of %d bytes (two-byte runes: %v) at position %d", len(long), wide, pos)
		x.Transition(1)
		x.Nontrivial(fmt.Sprint(n, wide, pos))
		tags := []string{"very_long_line", fmt.Sprintf("line_bytes:%d", len(long))}
		x.Clause("C18.longest")
		if g := length.LongestLineCells(s); g != cells {
			x.Fail("C18.longest", tags, "LongestLineCells = %d, the longest line is %d cells wide", g, cells)
		}
		if g := length.LongestLineBytes(s); g != len(long) {
			x.Fail("C18.longest", tags, "LongestLineBytes = %d, the longest line has %d bytes", g, len(long))
		}
		x.Clause("C18.cell")
		cell := tabular.NewCell(s)
		wantLines := strings.Count(s, "\n") + 1
		if cell.TerminalCellWidth() != cells || cell.Height() != wantLines || len(cell.Lines()) != wantLines {
			x.Fail("C18.cell", tags, "NewCell: width %d height %d lines %d, want width %d and %d lines", cell.TerminalCellWidth(), cell.Height(), len(cell.Lines()), cells, wantLines)
		}
	})
	// padding of every size: a column whose widest line is W cells wide, above/below lines of 0, 1 and W-1 cells
	maxW := x.Pick(300, 1100)
	x.Explore("padding-widths", ExploreOpts{ShardDepth: 1, Bound: fmt.Sprintf("every column width W in 1..%d (ASCII, and double-width runes for even W) with cells of width 0, 1 and W-1 and a two-line cell in the same column; header or body position", maxW)}, func(c *Chooser) {
		w := 1 + c.Choose(maxW)
		wide := c.Bool()
		hdr := c.Bool()
		if wide && w%2 == 1 {
			return
		}
		long := strings.Repeat("x", w)
		if wide {
			long = strings.Repeat("ｗ", w/2)
		}
		cells := []string{long, "", "y", strings.Repeat("z", w-1), "a\n" + strings.Repeat("b", w/2)}
		tg := &TGrid{}
		if hdr {
			tg.HasHeader = true
			tg.Header = []TCell{{Text: long}}
			cells = cells[1:]
		}
		for _, s := range cells {
			tg.Rows = append(tg.Rows, TRow{Cells: []TCell{{Text: s}}})
		}
		c.Logf("one column of width %d (wide runes: %v, widest line in the header: %v)", w, wide, hdr)
		x.Transition(1)
		x.Nontrivial(fmt.Sprint(w, wide, hdr))
		compareTextTable(x, "C18", tg, namedDecor("ascii-simple"), []string{"padding_widths", fmt.Sprintf("width:%d", w)})
	})
	// cells whose text does not come from a string item: the cell's declared size must still be that of the text it shows
	type itemCase struct {
		name string
		item interface{}
	}
	items := []itemCase{{"rune 'a'", 'a'}, {"rune LF", '\n'}, {"rune NUL", rune(0)}, {"wide rune", 'ｗ'}, {"combining rune", '\u0301'}, {"zero-width rune", '\u200b'},
		{"int32(-1) (not a code point)", int32(-1)}, {"rune 0x110000 (beyond Unicode)", rune(0x110000)}, {"surrogate 0xD800", rune(0xD800)}, {"rune 0xFFFD", '\uFFFD'}, {"rune DEL", rune(0x7f)}, {"rune TAB", '\t'},
		{"int", 12345}, {"negative float", -1.5}, {"nil", nil}, {"bool", true}, {"[]string", []string{"a", "b"}}, {"error with two lines", myErr{"l1\nline-two"}}, {"byte", byte('x')}}
	x.Explore("non-string-items", ExploreOpts{ShardDepth: 1, Bound: fmt.Sprintf("%d items that are not strings (runes incl. non-code-points, numbers, nil, slices, errors): cell size vs the text shown, and a one-cell text table", len(items))}, func(c *Chooser) {
		ic := items[c.Choose(len(items))]
		hdr := c.Bool()
		cell := tabular.NewCell(ic.item)
		s := cell.String()
		lines := length.Lines(s)
		mc := 0
		for _, l := range lines {
			if w := length.StringCells(l); w > mc {
				mc = w
			}
		}
		c.Logf("NewCell(%s) shows %q", ic.name, s)
		x.Transition(1)
		x.Nontrivial(ic.name + fmt.Sprint(hdr))
		tags := append(c18Tags(s), "non_string_item")
		x.Clause("C18.cell")
		if cell.Height() != len(lines) {
			x.Fail("C18.cell", tags, "NewCell(%s) shows %q: Height()=%d but the text has %d lines", ic.name, s, cell.Height(), len(lines))
		}
		if cell.TerminalCellWidth() != mc {
			x.Fail("C18.cell", tags, "NewCell(%s) shows %q: TerminalCellWidth()=%d but its longest line is %d cells", ic.name, s, cell.TerminalCellWidth(), mc)
		}
		if !c18SelfConsistent(s) {
			return
		}
		tg := &TGrid{}
		if hdr {
			tg.HasHeader, tg.Header = true, []TCell{{Text: s}}
			tg.Rows = []TRow{{Cells: []TCell{{Text: "x"}}}}
		} else {
			tg.Rows = []TRow{{Cells: []TCell{{Text: s}}}, {Cells: []TCell{{Text: "xy"}}}}
		}
		tt := texttable.New()
		if hdr {
			tt.AddHeaders(ic.item)
			tt.AddRowItems("x")
		} else {
			tt.AddRowItems(ic.item)
			tt.AddRowItems("xy")
		}
		dc := namedDecor("ascii-simple")
		if err := dc.Apply(tt); err != nil {
			panic("harness: " + err.Error())
		}
		var out string
		var err error
		if p, val, site := Safe(func() { out, err = tt.Render() }); p {
			x.FailSite("C18.layout_emit", append(tags, "panic"), site, "rendering a table holding %s panicked: %v", ic.name, val)
			return
		}
		judgeTextTable(x, "C18", tg, dc, tags, out, err)
	})
	maxLen := x.Pick(5, 7)
	ascii := "ascii-simple"
	x.Explore("strings", ExploreOpts{ShardDepth: 3, Bound: fmt.Sprintf("all strings of <=%d atoms over %d atoms; each also as a one-cell text table (body, header, right-aligned column, centred column-0 default)", maxLen, len(c18Atoms))}, func(c *Chooser) {
		var sb strings.Builder
		nontrivial := false
		for i := 0; i < maxLen; i++ {
			a := c.Choose(len(c18Atoms) + 1)
			if a == 0 {
				break
			}
			sb.WriteString(c18Atoms[a-1])
			if a-1 != 1 && a-1 != 2 {
				nontrivial = true
			}
		}
		s := sb.String()
		c.Logf("s=%q", s)
		x.Transition(1)
		if nontrivial {
			x.Nontrivial(s)
		}
		tags := c18Tags(s)

		// clause lines: nothing lost but line breaks and at most one trailing newline
		lines := length.Lines(s)
		x.Clause("C18.lines")
		joined := strings.Join(lines, "\n")
		if joined != s && !(strings.HasSuffix(s, "\n") && joined == s[:len(s)-1]) {
			x.Fail("C18.lines", tags, "Lines(%q)=%q: joined %q is neither the string nor the string minus one trailing newline", s, lines, joined)
		}
		for _, l := range lines {
			if strings.Contains(l, "\n") {
				x.Fail("C18.lines", tags, "Lines(%q)=%q: a line contains a line feed", s, lines)
			}
		}
		// clause longest: each longest-line measure is the max of the per-line measure
		x.Clause("C18.longest")
		mb, mr, mc := 0, 0, 0
		for _, l := range lines {
			b, r, cl := length.StringBytes(l), length.StringRunes(l), length.StringCells(l)
			if b > mb {
				mb = b
			}
			if r > mr {
				mr = r
			}
			if cl > mc {
				mc = cl
			}
			x.Clause("C18.per_line_order")
			if r > b || cl > 2*r {
				x.Fail("C18.per_line_order", tags, "line %q of %q: bytes=%d runes=%d cells=%d (need runes<=bytes, cells<=2*runes)", l, s, b, r, cl)
			}
		}
		if g := length.LongestLineBytes(s); g != mb {
			x.Fail("C18.longest", tags, "LongestLineBytes(%q)=%d, max over lines %q is %d", s, g, lines, mb)
		}
		if g := length.LongestLineRunes(s); g != mr {
			x.Fail("C18.longest", tags, "LongestLineRunes(%q)=%d, max over lines %q is %d", s, g, lines, mr)
		}
		if g := length.LongestLineCells(s); g != mc {
			x.Fail("C18.longest", tags, "LongestLineCells(%q)=%d, max over lines %q is %d", s, g, lines, mc)
		}
		x.Outcome(fmt.Sprint(len(lines), mb, mr, mc))

		// clause cell: height = number of lines, width = longest line's display width
		cell := tabular.NewCell(s)
		x.Clause("C18.cell")
		cl := cell.Lines()
		if len(cl) != len(lines) || strings.Join(cl, "\x00") != strings.Join(lines, "\x00") {
			x.Fail("C18.cell", tags, "NewCell(%q).Lines()=%q but length.Lines=%q", s, cl, lines)
		}
		if cell.Height() != len(lines) {
			x.Fail("C18.cell", tags, "NewCell(%q).Height()=%d but it has %d lines %q", s, cell.Height(), len(lines), lines)
		}
		if cell.TerminalCellWidth() != mc {
			x.Fail("C18.cell", tags, "NewCell(%q).TerminalCellWidth()=%d but longest line is %d cells", s, cell.TerminalCellWidth(), mc)
		}

		// clause layout_emit: the renderer's layout and emit passes agree: a one-cell table is a rectangle
		// of exactly max(1,lines) content lines, mc+4 cells wide.
		// variants 2 and 3: the same body cell in a right-aligned column / under a centred column-0 default (the
		// padding then goes in front of or around the text; the rectangle must be the same)
		for variant := 0; variant < 4; variant++ {
			tt := texttable.New()
			switch variant {
			case 1:
				tt.AddHeaders(s)
			default:
				tt.AddRowItems(s)
			}
			switch variant {
			case 2:
				tt.Column(1).SetProperty(align.PropertyType, align.Right)
				tags = append(append([]string{}, tags...), "right_aligned_column")
			case 3:
				tt.Column(0).SetProperty(align.PropertyType, align.Center)
				tags = append(append([]string{}, tags...), "centred_by_column_0_default")
			}
			if _, err := tt.SetDecorationNamed(ascii); err != nil {
				panic("harness: ascii-simple not registered: " + err.Error())
			}
			var out string
			var err error
			if p, val, site := Safe(func() { out, err = tt.Render() }); p {
				x.FailSite("C18.layout_emit", append(tags, "panic"), site, "rendering one-cell table of %q panicked: %v", s, val)
				continue
			}
			x.Clause("C18.layout_emit")
			if err != nil {
				x.Fail("C18.layout_emit", tags, "rendering one-cell table of %q failed: %v", s, err)
				continue
			}
			ol := strings.Split(strings.TrimSuffix(out, "\n"), "\n")
			wantContent := len(lines)
			if wantContent < 1 {
				wantContent = 1
			}
			wantLines := 2 + wantContent
			if variant == 1 {
				wantLines = 3 + wantContent
			}
			if !c18SelfConsistent(s) {
				x.Note("layout_emit_width_skipped_cluster_merge")
				if len(ol) != wantLines {
					x.Fail("C18.layout_emit", tags, "one-cell table of %q: %d output lines, want %d\n%s", s, len(ol), wantLines, out)
				}
				continue
			}
			if len(ol) != wantLines {
				x.Fail("C18.layout_emit", tags, "one-cell table of %q: %d output lines, want %d\n%s", s, len(ol), wantLines, out)
				continue
			}
			for _, l := range ol {
				if w := length.StringCells(l); w != mc+4 {
					x.Fail("C18.layout_emit", tags, "one-cell table of %q: line %q is %d cells wide, want %d (cell width %d + 4)\n%s", s, l, w, mc+4, mc, out)
					break
				}
			}
		}
	})
}

// c18SelfConsistent: measuring a whole rendered line is only meaningful if the
// measure is additive over "| " + line + pad + " |" for every line of s.
func c18SelfConsistent(s string) bool {
	for _, l := range length.Lines(s) {
		if length.StringCells("| "+l+" |") != 4+length.StringCells(l) {
			return false
		}
	}
	return true
}

func c18Tags(s string) []string {
	var t []string
	if strings.Contains(s, "\n") {
		t = append(t, "has_newline")
	}
	if strings.HasSuffix(s, "\n") {
		t = append(t, "trailing_newline")
	}
	if s == "" {
		t = append(t, "empty_string")
	}
	if strings.ContainsAny(s, "́​") {
		t = append(t, "zero_width_char")
	}
	if strings.Contains(s, "\xff") {
		t = append(t, "invalid_utf8")
	}
	return t
}
