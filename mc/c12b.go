package main

// C12, family "new-cells-start-empty": properties set on existing cells, rows and columns must never show on
// cells that are added LATER, however much the later cells resemble the earlier ones (same text in the same
// column, same text as the header, an identical row).

import (
	"fmt"

	"go.pennock.tech/tabular"
)

func runC12NewCells(x *X) {
	type pkey string
	keys := []interface{}{pkey("k1"), pkey("k2")}
	keyNames := []string{"k1", "k2"}
	depth := x.Pick(5, 6)
	x.Explore("new-cells-start-empty", ExploreOpts{ShardDepth: 2, Bound: fmt.Sprintf("table header(t,u) + row(t,u); all sequences of <=%d operations {set k1/k2 on the last row's first/second cell or on the last row itself (separators too), AddRowItems(t,u) again, AddRowItems(u,t), AddRowItems(other), AddSeparator, AppendNewRow+Add(t), AddHeaders(t,u) again, render pass, Update() on a cell, two NewRowSizedFor rows (the first over-filled), set on the last cell of the second-to-last row}; every cell read for both keys after each step", depth)}, func(c *Chooser) {
		t := tabular.New()
		t.AddHeaders("t", "u")
		t.AddRowItems("t", "u")
		var owners []*pOwner
		addCellOwners := func() {
			// register every cell of the table that is not yet known, with an empty model; cells are identified by their
			// location (rows are never removed), and always re-fetched through the table
			known := map[string]bool{}
			for _, o := range owners {
				known[o.name] = true
			}
			for ri, r := range t.AllRows() {
				if r.IsSeparator() {
					continue
				}
				for ci := range r.Cells() {
					name := fmt.Sprintf("cell(%d,%d)", ri+1, ci+1)
					if !known[name] {
						loc := tabular.CellLocation{Row: ri + 1, Column: ci + 1}
						owners = append(owners, &pOwner{name: name, get: func() tabular.PropertyOwner {
							cp, err := t.CellAt(loc)
							if err != nil {
								panic("harness: CellAt: " + err.Error())
							}
							return cp
						}, model: map[interface{}]interface{}{}})
					}
				}
			}
			for ri := range t.AllRows() {
				// rows (separator rows included) own properties too; a new row starts without any
				name := fmt.Sprintf("row(%d)", ri+1)
				if !known[name] {
					ri := ri
					owners = append(owners, &pOwner{name: name, get: func() tabular.PropertyOwner { return t.AllRows()[ri] }, model: map[interface{}]interface{}{}})
				}
			}
			for ci := range t.Headers() {
				name := fmt.Sprintf("header(%d)", ci+1)
				if !known[name] {
					ci := ci
					owners = append(owners, &pOwner{name: name, get: func() tabular.PropertyOwner { return &t.Headers()[ci] }, model: map[interface{}]interface{}{}})
				}
			}
		}
		addCellOwners()
		lastCellRow := func() []*pOwner {
			// owners of the last non-separator row's cells, in column order
			rr := t.AllRows()
			for i := len(rr) - 1; i >= 0; i-- {
				if rr[i].IsSeparator() {
					continue
				}
				var out []*pOwner
				for ci := range rr[i].Cells() {
					name := fmt.Sprintf("cell(%d,%d)", i+1, ci+1)
					for _, o := range owners {
						if o.name == name {
							out = append(out, o)
						}
					}
				}
				return out
			}
			return nil
		}
		var ops []string
		sets := 0
		for step := 0; step < depth; step++ {
			k := c.Choose(17)
			if k == 0 {
				break
			}
			x.Transition(1)
			var name string
			switch k {
			case 1, 2, 3, 4:
				row := lastCellRow()
				ci, ki := (k-1)/2, (k-1)%2
				if ci >= len(row) {
					name = "(no such cell)"
					break
				}
				sets++
				v := fmt.Sprintf("v%d", sets)
				name = fmt.Sprintf("%s.SetProperty(%s, %s)", row[ci].name, keyNames[ki], v)
				row[ci].get().SetProperty(keys[ki], v)
				row[ci].model[keys[ki]] = v
			case 14:
				// two rows obtained from the table back to back (sized for its current width); the first gets one cell more
				// than that, the second a single cell; both are then attached
				name = "ra, rb := t.NewRowSizedFor(), t.NewRowSizedFor(); ra gets NColumns+1 cells, rb one; AddRow(ra); AddRow(rb)"
				ra, rb := t.NewRowSizedFor(), t.NewRowSizedFor()
				for i := 0; i <= t.NColumns(); i++ {
					ra.Add(tabular.NewCell(fmt.Sprintf("a%d", i)))
				}
				rb.Add(tabular.NewCell("b0"))
				t.AddRow(ra)
				t.AddRow(rb)
			case 15, 16:
				// a property on the LAST cell of the second-to-last cell row
				rr := t.AllRows()
				seen := 0
				for i := len(rr) - 1; i >= 0 && name == ""; i-- {
					if rr[i].IsSeparator() || len(rr[i].Cells()) == 0 {
						continue
					}
					seen++
					if seen == 2 {
						cn := fmt.Sprintf("cell(%d,%d)", i+1, len(rr[i].Cells()))
						for _, o := range owners {
							if o.name == cn {
								sets++
								v := fmt.Sprintf("v%d", sets)
								name = fmt.Sprintf("%s.SetProperty(%s, %s)", cn, keyNames[k-15], v)
								o.get().SetProperty(keys[k-15], v)
								o.model[keys[k-15]] = v
							}
						}
					}
				}
				if name == "" {
					name = "(no second-to-last cell row)"
				}
			case 13:
				// Update() re-reads the cell's item; it has nothing to do with the cell's properties
				row := lastCellRow()
				if len(row) == 0 {
					name = "(no cell to update)"
					break
				}
				name = row[0].name + ".Update()"
				row[0].get().(*tabular.Cell).Update()
			case 11, 12:
				// a property on the last row of the table, whatever it is (a separator, too)
				rr := t.AllRows()
				rn := fmt.Sprintf("row(%d)", len(rr))
				for _, o := range owners {
					if o.name == rn {
						sets++
						v := fmt.Sprintf("v%d", sets)
						name = fmt.Sprintf("%s.SetProperty(%s, %s)", rn, keyNames[k-11], v)
						o.get().SetProperty(keys[k-11], v)
						o.model[keys[k-11]] = v
					}
				}
			case 5:
				name = `t.AddRowItems("t", "u")   // same texts as the row above`
				t.AddRowItems("t", "u")
			case 6:
				name = `t.AddRowItems("u", "t")`
				t.AddRowItems("u", "t")
			case 7:
				name = `t.AddRowItems("other")`
				t.AddRowItems("other")
			case 8:
				name = "t.AddSeparator()"
				t.AddSeparator()
			case 9:
				name = `t.AppendNewRow().Add(NewCell("t"))`
				t.AppendNewRow().Add(tabular.NewCell("t"))
			case 10:
				if len(ops) > 0 && ops[len(ops)-1] == "pass" {
					name = `t.AddHeaders("t", "u")   // again`
					t.AddHeaders("t", "u")
					// the old header cells are gone
					var keep []*pOwner
					for _, o := range owners {
						if len(o.name) < 6 || o.name[:6] != "header" {
							keep = append(keep, o)
						}
					}
					owners = keep
				} else {
					name = "t.InvokeRenderCallbacks()"
					t.InvokeRenderCallbacks()
					ops = append(ops, "pass")
					c.Logf("%s", name)
					continue
				}
			}
			c.Logf("%s", name)
			ops = append(ops, name)
			addCellOwners()
			tags := []string{"new_cells_start_empty"}
			if !c12CheckAll(x, owners, keys, keyNames, tags, "after "+name+" (ops "+fmt.Sprint(ops)+")") {
				return
			}
		}
		x.State(fmt.Sprint(ops))
		if sets > 0 && len(ops) > 1 {
			x.Nontrivial(fmt.Sprint(ops))
		}
	})
}

// family "values": the value read back is THE value last set - for values that are deeply equal to the previous one
// but not identical (two pointers to equal structs, equal strings built separately, 1 vs int64(1), -0.0 vs 0.0, a
// typed nil pointer vs untyped nil) as for any other.
func runC12Values(x *X) {
	type pt struct{ A int }
	type cand struct {
		name string
		v    interface{}
	}
	p1, p2 := &pt{1}, &pt{1}
	var typedNil *pt
	m1, m2 := &map[string]int{"a": 1}, &map[string]int{"a": 1}
	cands := []cand{{"ptrA -> {1}", p1}, {"ptrB -> {1} (equal content, different pointer)", p2}, {"int 1", 1}, {"int64 1", int64(1)}, {"+0.0", 0.0}, {"-0.0", negZero()},
		{"typed nil *pt", typedNil}, {"ptr to map A", m1}, {"ptr to map B (equal content)", m2}, {`"v"`, "v"}, {"struct{1}", pt{1}}}
	same := func(a, b interface{}) bool {
		if fa, ok := a.(float64); ok {
			fb, ok2 := b.(float64)
			return ok2 && fa == fb && (1/fa > 0) == (1/fb > 0)
		}
		return a == b
	}
	depth := x.Pick(3, 4)
	x.Explore("values", ExploreOpts{ShardDepth: 2, Bound: fmt.Sprintf("3 owners (table, column 1, cell) x one key x all sequences of <=%d sets over %d values that are pairwise deeply-equal-but-different (or nil)", depth, len(cands))}, func(c *Chooser) {
		t := tabular.New()
		t.AddRowItems("a")
		cell, _ := t.CellAt(tabular.CellLocation{Row: 1, Column: 1})
		owners := []struct {
			name string
			po   tabular.PropertyOwner
		}{{"table", t}, {"column 1", t.Column(1)}, {"cell", cell}}
		o := owners[c.Choose(len(owners))]
		var last interface{}
		var ops []string
		for step := 0; step < depth; step++ {
			k := c.Choose(len(cands) + 2)
			if k == 0 {
				break
			}
			x.Transition(1)
			if k == len(cands)+1 {
				o.po.SetProperty("key", nil)
				last = nil
				ops = append(ops, "set nil")
			} else {
				o.po.SetProperty("key", cands[k-1].v)
				last = cands[k-1].v
				ops = append(ops, "set "+cands[k-1].name)
			}
			c.Logf("%s.SetProperty(key, %s)", o.name, ops[len(ops)-1][4:])
			got := o.po.GetProperty("key")
			x.Clause("C12.get_returns_last_set")
			if !same(got, last) {
				x.Fail("C12.get_returns_last_set", []string{"values_family", "deeply_equal_but_different_value"}, "%s: after %v GetProperty returns %#v (%T %p), the value last set is %#v (%T %p)", o.name, ops, got, got, got, last, last, last)
				return
			}
		}
		x.State(fmt.Sprint(o.name, ops))
		if len(ops) > 1 {
			x.Nontrivial(fmt.Sprint(o.name, ops))
		}
	})
}

func negZero() float64 { z := 0.0; return -z }
