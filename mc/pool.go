package main

// Item pool for the sequence explorers: text-like items, including ones whose
// declared size disagrees with their text.

type PoolItem struct {
	Name string
	Make func() interface{}
	Text string
	Tags []string
}

const (
	mS = 1
	mG = 2
	mE = 4
	mH = 8
	mW = 16
)

func sized(mask int, f ItemF) func() interface{} {
	return func() interface{} { it, _ := mkItem(mask, false, f); return it }
}

var poolPlain = PoolItem{Name: "a", Make: func() interface{} { return "a" }, Text: "a"}

var itemPool = []PoolItem{
	poolPlain,
	{Name: "empty", Make: func() interface{} { return "" }, Text: "", Tags: []string{"empty_text"}},
	{Name: "2lines", Make: func() interface{} { return "a\nbc" }, Text: "a\nbc", Tags: []string{"multi_line"}},
	{Name: "nil", Make: func() interface{} { return nil }, Text: "", Tags: []string{"nil_item"}},
	{Name: "H1<2lines", Make: sized(mS|mH, ItemF{S: "a\nb", H: 1}), Text: "a\nb", Tags: []string{"declared_height_below_lines", "multi_line"}},
	{Name: "H3>1line", Make: sized(mS|mH, ItemF{S: "a", H: 3}), Text: "a", Tags: []string{"declared_height_above_lines"}},
	{Name: "W0<abc", Make: sized(mS|mW, ItemF{S: "abc", W: 0}), Text: "abc", Tags: []string{"declared_width_differs_from_text"}},
	{Name: "H-1W-1", Make: sized(mS|mH|mW, ItemF{S: "a", H: -1, W: -1}), Text: "a", Tags: []string{"negative_declared_size"}},
	{Name: "H0W5empty", Make: sized(mS|mH|mW, ItemF{S: "", H: 0, W: 5}), Text: "", Tags: []string{"empty_text", "declared_width_differs_from_text"}},
	{Name: "W1<2longlines", Make: sized(mS|mW, ItemF{S: "abcd\nefgh", W: 1}), Text: "abcd\nefgh", Tags: []string{"declared_width_differs_from_text", "multi_line"}},
	{Name: "W2<wide", Make: sized(mS|mW, ItemF{S: "ｗｗｗ\nx", W: 2}), Text: "ｗｗｗ\nx", Tags: []string{"declared_width_differs_from_text", "multi_line"}},
}

// PoolFill returns an ItemGen that picks one pool item per operation (all cells of the op alike).
func PoolFill(pool []PoolItem) ItemGen {
	return func(c *Chooser, b *Builder, op string, n int) ([]interface{}, []string, string) {
		if n == 0 {
			return nil, []string{}, ""
		}
		k := 0
		if n <= 3 && len(pool) > 1 {
			k = c.Choose(len(pool))
		}
		p := pool[k]
		items := make([]interface{}, n)
		texts := make([]string, n)
		for i := range items {
			items[i] = p.Make()
			texts[i] = p.Text
		}
		for _, t := range p.Tags {
			b.AddItemTag(t)
		}
		b.Fills = append(b.Fills, p.Name)
		return items, texts, itoa(n) + "x" + p.Name
	}
}

func itoa(n int) string {
	if n == 0 {
		return "0"
	}
	s := ""
	neg := n < 0
	if neg {
		n = -n
	}
	for n > 0 {
		s = string(rune('0'+n%10)) + s
		n /= 10
	}
	if neg {
		s = "-" + s
	}
	return s
}
