package main

// C09, family "item-kinds": text-like items (they show through String(), Error() or plain %v) whose DYNAMIC KIND is
// unusual for a table cell - a comparable struct type whose interface field holds a slice, map or func (comparable
// at compile time, unhashable and incomparable at run time), non-comparable structs, arrays of interfaces, pointers,
// typed nil pointers with a nil-safe String, NaN.  A renderer that keys a map by the item, compares items with ==,
// or type-switches on kinds must still never panic.

import (
	"errors"
	"fmt"
	"math"
)

type c09Annotated struct {
	name  string
	extra interface{}
}

func (a c09Annotated) String() string { return a.name }

type c09Sliced struct {
	name string
	tags []string
}

func (s c09Sliced) String() string { return s.name }

type c09NilSafe struct{ s string }

func (p *c09NilSafe) String() string {
	if p == nil {
		return "<nil-safe>"
	}
	return p.s
}

type c09ErrHolder struct {
	name string
	err  error
}

func (e c09ErrHolder) Error() string { return e.name }

func init() {
	type ik struct {
		name string
		item interface{}
		text string
	}
	fn := func() {}
	items := []ik{
		{"comparable struct holding a slice", c09Annotated{"tags", []string{"a", "b"}}, "tags"},
		{"comparable struct holding a map", c09Annotated{"map", map[string]int{"k": 1}}, "map"},
		{"comparable struct holding a func", c09Annotated{"func", fn}, "func"},
		{"comparable struct holding nil", c09Annotated{"plain", nil}, "plain"},
		{"struct with a slice field", c09Sliced{"sliced", []string{"x"}}, "sliced"},
		{"pointer to struct with a slice field", &c09Sliced{"psliced", nil}, "psliced"},
		{"array of interfaces holding a slice", [2]interface{}{[]int{1}, "x"}, "[[1] x]"},
		{"typed nil pointer with nil-safe String", (*c09NilSafe)(nil), "<nil-safe>"},
		{"error holding an error holding a slice", c09ErrHolder{"outer", c09ErrHolder{"inner", errors.New("leaf")}}, "outer"},
		{"error struct holding a joined error", c09ErrHolder{"joined", errors.Join(errors.New("a"), errors.New("b"))}, "joined"},
		{"NaN", math.NaN(), "NaN"},
		{"negative zero", math.Copysign(0, -1), "-0"},
		{"slice of slices", [][]string{{"a"}, {"b", "c"}}, "[[a] [b c]]"},
		{"map keyed by array", map[[2]int]string{{1, 2}: "v"}, "map[[1 2]:v]"},
	}
	c09ExtraFamilies = append(c09ExtraFamilies, func(x *X) {
		targets := allTargets()
		x.Explore("item-kinds", ExploreOpts{ShardDepth: 2, Bound: fmt.Sprintf("%d text-like items of unusual dynamic kind (run-time unhashable values of comparable types, non-comparable structs, arrays, typed nil, NaN, -0) x {header, body, body twice, header and body} x with/without header; all %d render targets", len(items), len(targets))}, func(c *Chooser) {
			it := items[c.Choose(len(items))]
			where := c.Choose(4)
			b := NewBuilder(&BuildCfg{Counts: []int{0, 1, 2}, Items: PoolFill([]PoolItem{poolPlain})})
			var hdr []interface{}
			var hdrT []string
			switch where {
			case 0, 3:
				hdr, hdrT = []interface{}{"h", it.item}, []string{"h", it.text}
			default:
				if c.Bool() {
					hdr, hdrT = []interface{}{"h", "h2"}, []string{"h", "h2"}
				}
			}
			if hdr != nil {
				b.T.AddHeaders(hdr...)
				b.HasHeader, b.Header, b.MaxEver = true, hdrT, 2
			}
			switch where {
			case 0:
				b.T.AddRowItems("a", "b")
				b.Rows = append(b.Rows, &RefRow{Cells: []string{"a", "b"}, Attached: true})
			case 1, 3:
				b.T.AddRowItems(it.item, "b")
				b.Rows = append(b.Rows, &RefRow{Cells: []string{it.text, "b"}, Attached: true})
			case 2:
				b.T.AddRowItems(it.item, it.item)
				b.T.AddRowItems("x", it.item)
				b.Rows = append(b.Rows, &RefRow{Cells: []string{it.text, it.text}, Attached: true}, &RefRow{Cells: []string{"x", it.text}, Attached: true})
			}
			b.MaxEver = 2
			b.AddItemTag("unusual_item_kind")
			b.Fills = append(b.Fills, it.name)
			c.Logf("item %s (shown as %q) placed: %s", it.name, it.text, []string{"header", "body", "body twice + next row", "header and body"}[where])
			x.Transition(2)
			x.Nontrivial(fmt.Sprint(it.name, where, hdr != nil))
			c09RenderAll(x, c, b, targets)
		})
	})
}
