//go:build verifsch

package main

// Scheduler checks (C16, C17): stateless exploration of goroutine interleavings of
// the real code under a cooperative scheduler that owns every hooked step
// (shimmed sync operations, accesses to mutable package-level variables, every
// Write to the threads' writers, every recording-callback invocation, explicit
// harness yields), preemption-bounded depth-first search over Chooser decisions.

import (
	"bytes"
	"encoding/json"
	"flag"
	"fmt"
	"html/template"
	"io"
	"os"
	"os/exec"
	"sort"
	"strings"
	"sync"
	"sync/atomic"
	"time"

	"go.pennock.tech/tabular"
	"go.pennock.tech/tabular/auto"
	"go.pennock.tech/tabular/csv"
	thtml "go.pennock.tech/tabular/html"
	tjson "go.pennock.tech/tabular/json"
	"go.pennock.tech/tabular/markdown"
	"go.pennock.tech/tabular/properties/align"
	"go.pennock.tech/tabular/texttable"
	"go.pennock.tech/tabular/texttable/decoration"
	"go.pennock.tech/tabular/zverif/vrt"
)

const builtWithOverlay = true

// Names: with the overlay's reset helper every execution uses the same names and they are removed again
// afterwards (every execution starts with them absent).  Without it nothing can be removed from the
// process-global registry; the names are then fixed and normalised (registered with decoration d3) before every
// execution, so that every execution of the depth-first search still starts from the same state.
func nextSerial(x *X) string {
	if vrt.ResetHook != nil {
		return "x"
	}
	return "fixed"
}

// prepareNames normalises the registry for one execution and returns the model's initial state.
func prepareNames(names ...string) map[string]int {
	st := map[string]int{}
	if vrt.ResetHook != nil {
		return st
	}
	for _, n := range names {
		decoration.RegisterDecorationName(n, decorFor(3))
		st[n] = 3
	}
	return st
}

func resetNames(names ...string) {
	if vrt.ResetHook != nil {
		vrt.ResetHook(names)
	}
}

// schedule runs bodies under the scheduler with all decisions taken from c, at most bound preemptions.
func schedule(c *Chooser, bodies []func(), bound int) *vrt.Result {
	preempts := 0
	pick := func(p vrt.PointInfo) int {
		if p.RunningOn && preempts >= bound {
			return 0
		}
		i := c.Choose(len(p.Enabled))
		if p.RunningOn && i != 0 {
			preempts++
		}
		return i
	}
	return vrt.Run(bodies, pick, c.Tracing(), 20000)
}

func schCommon(x *X, c *Chooser, prop string, res *vrt.Result, tags []string, desc string) bool {
	if c.Tracing() {
		for _, t := range res.Trace {
			c.Logf("%s", t)
		}
	}
	x.Transition(res.Points)
	if res.Horizon {
		panic("harness: scheduler horizon reached: " + desc)
	}
	x.Clause(prop + ".no_deadlock")
	if res.Deadlock {
		x.Fail(prop+".no_deadlock", tags, "deadlock: %v; program %s", res.Blocked, desc)
		return false
	}
	x.Clause(prop + ".no_panic")
	if len(res.Panics) > 0 {
		x.Fail(prop+".no_panic", append(tags, "panic"), "%v; program %s", res.Panics, desc)
		return false
	}
	x.Clause(prop + ".race_free")
	if len(res.Races) > 0 {
		r := res.Races[0]
		x.Fail(prop+".race_free", append(tags, "race:"+r.Var), "data race on %s (%s): %s  ||  %s — no happens-before edge between them; program %s", r.Var, r.Kinds, r.A, r.B, desc)
		return false
	}
	return true
}

// ---------------------------------------------------------------------------
// C17

type regEvent struct {
	thread   int
	op       string
	name     string
	arg      int // decoration id for Register
	inv, ret int
	// observations
	gotDecor  int  // Named / render: which decoration (0 = empty/unknown)
	gotErr    bool // SetDecorationNamed returned an error
	renderErr bool
	list      []string
}

// c17Epoch, when set, makes the decorations d1..d3 unique to the current execution (fresh-names families): a registry
// that shares storage between EQUAL decoration values must not be helped by values left over from earlier executions.
var c17Epoch string

func decorFor(id int) decoration.Decoration {
	d := customFromMask(7 | 1<<(2+id)) // distinct per id (field 2+id set to its own glyph)
	if c17Epoch != "" {
		d.HBRight = fmt.Sprintf("<%s:%d>", c17Epoch, id)
	}
	return d
}

// c17Builtin is the init-time built-in that the builtin-name families overwrite (and restore through the public
// API afterwards); id 9 stands for its original value.
const c17Builtin = "utf8-double"

// built lazily: nothing of the library may run before C16's cold-start program
var (
	c17BuiltinOrigOnce sync.Once
	c17BuiltinOrigVal  decoration.Decoration
)

func c17Orig() decoration.Decoration {
	// sync.Once: the free-running -race pass calls this from many goroutines
	c17BuiltinOrigOnce.Do(func() { c17BuiltinOrigVal = decoration.UTF8BoxDouble() })
	return c17BuiltinOrigVal
}

func decorID(d decoration.Decoration, ids int) int {
	if d == decoration.EmptyDecoration {
		return 0
	}
	if d == c17Orig() {
		return 9
	}
	for i := 1; i <= ids; i++ {
		if d == decorFor(i) {
			return i
		}
	}
	return -1
}

type c17Op struct {
	kind string // register | named | list | render
	name int    // 0 = n, 1 = m, 2 = never registered
	dec  int
}

func (o c17Op) String() string {
	nm := []string{"n", "m", "never"}[o.name]
	switch o.kind {
	case "register":
		return fmt.Sprintf("Register(%s,d%d)", nm, o.dec)
	case "named":
		return fmt.Sprintf("Named(%s)", nm)
	case "list":
		return "List()"
	case "listscribble":
		return "List()+caller overwrites and appends to the returned slice"
	case "rendernested":
		return fmt.Sprintf("Wrap(text table with its own decoration).SetDecorationNamed(%s)+Render", nm)
	}
	return fmt.Sprintf("SetDecorationNamed(%s)+Render", nm)
}

// c17SeqMenu: the sequential family also renders through a wrapper around another text table
var c17SeqMenu = append(append([]c17Op{}, c17Menu...), c17Op{"rendernested", 0, 0}, c17Op{"rendernested", 2, 0})

var c17Menu = []c17Op{{"register", 0, 1}, {"register", 0, 2}, {"register", 1, 1}, {"named", 0, 0}, {"named", 2, 0}, {"list", 0, 0}, {"render", 0, 0}, {"render", 2, 0}, {"listscribble", 0, 0}}

func c17Exec(op c17Op, names []string, thread int, clock *int, log *[]regEvent) {
	ev := regEvent{thread: thread, op: op.kind, name: names[op.name], arg: op.dec}
	*clock++
	ev.inv = *clock
	switch op.kind {
	case "register":
		decoration.RegisterDecorationName(names[op.name], decorFor(op.dec))
	case "named":
		ev.gotDecor = decorID(decoration.Named(names[op.name]), 3)
	case "list":
		ev.list = decoration.RegisteredDecorationNames()
	case "listscribble":
		l := decoration.RegisteredDecorationNames()
		ev.list = append([]string(nil), l...)
		ev.op = "list"
		// the caller owns what it was handed: it may sort, overwrite and append
		for i := range l {
			l[i] = "~scribbled~"
		}
		l = append(l, "csv", "html", "json", "markdown")
		sort.Strings(l)
	case "render", "rendernested":
		tt := texttable.New()
		tt.AddHeaders("h")
		tt.AddRowItems("a")
		if op.kind == "rendernested" {
			// a wrapper AROUND a text table that has a perfectly good decoration of its own: the name given to the outer
			// wrapper decides (an unknown name must not fall back to the inner table's decoration)
			tt.SetDecorationNamed("ascii-simple")
			tt = texttable.Wrap(tt)
			ev.op = "render"
		}
		_, err := tt.SetDecorationNamed(names[op.name])
		ev.gotErr = err != nil
		out, rerr := tt.Render()
		ev.renderErr = rerr != nil
		ev.gotDecor = 0
		if rerr == nil {
			for _, i := range []int{1, 2, 3, 9} {
				ref := texttable.New()
				ref.AddHeaders("h")
				ref.AddRowItems("a")
				if i == 9 {
					ref.SetDecoration(c17Orig())
				} else {
					ref.SetDecoration(decorFor(i))
				}
				if r, _ := ref.Render(); r == out {
					ev.gotDecor = i
				}
			}
			if ev.gotDecor == 0 {
				ev.gotDecor = -1
			}
		}
		if out != "" && rerr != nil {
			ev.gotDecor = -2
		}
	}
	*clock++
	ev.ret = *clock
	*log = append(*log, ev)
}

// c17Linearizable: is there a total order of the events, consistent with real time, that a sequential map explains?
func c17Linearizable(evs []regEvent, names []string, initial map[string]int) (bool, string) {
	n := len(evs)
	used := make([]bool, n)
	state := map[string]int{}
	for k, v := range initial {
		state[k] = v
	}
	var explain string
	var rec func(done int) bool
	check := func(e regEvent) bool {
		switch e.op {
		case "register":
			return true
		case "named":
			return e.gotDecor == state[e.name]
		case "render":
			known := state[e.name] != 0
			return e.gotErr == !known && e.renderErr == !known && (!known || e.gotDecor == state[e.name]) && (known || e.gotDecor == 0)
		case "list":
			if !sort.StringsAreSorted(e.list) {
				return false
			}
			seen := map[string]bool{}
			for _, s := range e.list {
				if seen[s] {
					return false
				}
				seen[s] = true
			}
			for _, b := range []string{"ascii-simple", "none", "utf8-light", "utf8-light-curved", "utf8-heavy", "utf8-double"} {
				if !seen[b] {
					return false
				}
			}
			for _, nm := range names {
				if seen[nm] != (state[nm] != 0) {
					return false
				}
			}
			return true
		}
		return false
	}
	rec = func(done int) bool {
		if done == n {
			return true
		}
		for i := 0; i < n; i++ {
			if used[i] {
				continue
			}
			// real-time order: i may come next only if no unused event returned before i was invoked
			ok := true
			for j := 0; j < n; j++ {
				if !used[j] && j != i && evs[j].ret < evs[i].inv {
					ok = false
					break
				}
			}
			if !ok || !check(evs[i]) {
				continue
			}
			used[i] = true
			prev, had := state[evs[i].name], false
			if evs[i].op == "register" {
				had = true
				state[evs[i].name] = evs[i].arg
			}
			if rec(done + 1) {
				return true
			}
			if had {
				state[evs[i].name] = prev
			}
			used[i] = false
		}
		return false
	}
	if rec(0) {
		return true, ""
	}
	for _, e := range evs {
		explain += fmt.Sprintf("[T%d %s(%s,d%d) inv=%d ret=%d -> decor=%d err=%v renderErr=%v list=%d names] ", e.thread, e.op, e.name, e.arg, e.inv, e.ret, e.gotDecor, e.gotErr, e.renderErr, len(e.list))
	}
	return false, explain
}

// freshSerial numbers the executions of the fresh-names families of this process.
var freshSerial int

// c17FreshMenu: the operations whose behaviour can depend on a name being registered for the FIRST time.
var c17FreshMenu = []c17Op{{"register", 0, 1}, {"register", 1, 2}, {"register", 1, 1}, {"register", 0, 2}, {"named", 0, 0}, {"list", 0, 0}, {"render", 0, 0}}

func runC17sched(x *X, family string, nthreads, opsPer int, bound int) {
	runC17schedMenu(x, family, nthreads, opsPer, bound, c17Menu, false)
}

// fresh: every execution uses names that were never registered in this process (first-time registrations are
// explored even when nothing can be removed from the registry); the registry grows, so the menu is the short one.
func runC17schedMenu(x *X, family string, nthreads, opsPer int, bound int, c17Menu []c17Op, fresh bool) {
	x.Explore(family, ExploreOpts{ShardDepth: nthreads * opsPer, Bound: fmt.Sprintf("%d threads x %d op(s) each from an %d-op menu, every schedule with <=%d preemptions", nthreads, opsPer, len(c17Menu), bound)}, func(c *Chooser) {
		prog := make([][]c17Op, nthreads)
		var pd []string
		for t := 0; t < nthreads; t++ {
			for o := 0; o < opsPer; o++ {
				prog[t] = append(prog[t], c17Menu[c.Choose(len(c17Menu))])
			}
			pd = append(pd, fmt.Sprint(prog[t]))
		}
		desc := strings.Join(pd, " || ")
		serial := nextSerial(x)
		if fresh {
			freshSerial++
			serial = fmt.Sprintf("fresh%07d", freshSerial)
			c17Epoch = serial
			defer func() { c17Epoch = "" }()
		}
		// the never-registered name is a proper PREFIX of the registered name n (lookups are exact, not by prefix)
		names := []string{"n" + serial + "-full", "m" + serial, "n" + serial}
		builtin := strings.HasPrefix(family, "builtin-name")
		if builtin {
			names[1] = c17Builtin
		}
		c.Logf("program %s (names %v)", desc, names)
		if builtin {
			defer resetNames(names[0], names[2])
			defer decoration.RegisterDecorationName(c17Builtin, c17Orig())
		} else {
			defer resetNames(names...)
		}
		initial := map[string]int{}
		if !fresh {
			if builtin {
				initial = prepareNames(names[0])
				decoration.RegisterDecorationName(c17Builtin, c17Orig())
				initial[c17Builtin] = 9
			} else {
				initial = prepareNames(names[0], names[1])
			}
		}
		var log []regEvent
		clock := 0
		bodies := make([]func(), nthreads)
		for t := range bodies {
			t := t
			bodies[t] = func() {
				for _, op := range prog[t] {
					vrt.Yield(op.String())
					c17Exec(op, names, t, &clock, &log)
				}
			}
		}
		res := schedule(c, bodies, bound)
		tags := []string{"family:" + family}
		if !schCommon(x, c, "C17", res, tags, desc) {
			return
		}
		// final reads after all threads have finished
		for i := range names {
			c17Exec(c17Op{"named", i, 0}, names, 99, &clock, &log)
		}
		c17Exec(c17Op{"list", 0, 0}, names, 99, &clock, &log)
		x.Clause("C17.linearizable")
		ok, why := c17Linearizable(log, names, initial)
		if !ok {
			x.Fail("C17.linearizable", tags, "no sequential order of the registry operations explains what was observed: %s; program %s", why, desc)
			return
		}
		x.State(desc)
		x.Nontrivial(desc)
		var obs []string
		for _, e := range log {
			obs = append(obs, fmt.Sprint(e.op, e.gotDecor, e.gotErr, e.renderErr))
		}
		x.Outcome(strings.Join(obs, ","))
	})
}

func runC17(x *X) {
	// cold start: the very first thing a worker process does with the registry is one of these programs (state that
	// is initialised lazily on first use must not lose or resurrect anything)
	x.Explore("cold-start-registry", ExploreOpts{Cold: true, Bound: "one program per worker process, chosen by shard number, run before anything else touches the registry: re-register a built-in / register a new name first, then look up, list or render by name; sequential and as a two-thread program"}, func(c *Chooser) {
		p := c.Choose(x.NShards)
		names := []string{"ncold", c17Builtin, "nevercold"}
		progs := [][]c17Op{
			{{"register", 1, 1}, {"named", 1, 0}, {"list", 0, 0}},
			{{"register", 1, 1}, {"list", 0, 0}, {"named", 1, 0}},
			{{"register", 1, 2}, {"render", 1, 0}, {"named", 1, 0}},
			{{"register", 0, 1}, {"list", 0, 0}, {"named", 0, 0}, {"named", 1, 0}},
			{{"named", 2, 0}, {"register", 1, 1}, {"named", 1, 0}},
			{{"list", 0, 0}, {"register", 1, 1}, {"render", 1, 0}},
			{{"register", 1, 1}, {"register", 0, 2}, {"render", 0, 0}, {"render", 1, 0}},
			{{"render", 2, 0}, {"register", 1, 1}, {"list", 0, 0}, {"named", 1, 0}},
		}
		prog := progs[p%len(progs)]
		concurrent := p >= len(progs)
		desc := fmt.Sprint(prog)
		if concurrent {
			desc = "first op || the rest: " + desc
		}
		c.Logf("cold program %s (names %v)", desc, names)
		defer resetNames(names[0], names[2])
		defer func() { decoration.RegisterDecorationName(c17Builtin, c17Orig()) }()
		initial := map[string]int{c17Builtin: 9}
		var log []regEvent
		clock := 0
		tags := []string{"family:cold-start-registry", "first_use_in_process"}
		if concurrent {
			bodies := []func(){
				func() { vrt.Yield(prog[0].String()); c17Exec(prog[0], names, 0, &clock, &log) },
				func() {
					for _, op := range prog[1:] {
						vrt.Yield(op.String())
						c17Exec(op, names, 1, &clock, &log)
					}
				},
			}
			res := schedule(c, bodies, 0)
			if !schCommon(x, c, "C17", res, tags, desc) {
				return
			}
		} else {
			for _, op := range prog {
				c17Exec(op, names, 0, &clock, &log)
			}
		}
		for i := range names {
			c17Exec(c17Op{"named", i, 0}, names, 99, &clock, &log)
		}
		c17Exec(c17Op{"list", 0, 0}, names, 99, &clock, &log)
		x.Clause("C17.linearizable")
		if ok, why := c17Linearizable(log, names, initial); !ok {
			x.Fail("C17.linearizable", tags, "first use of the registry in this process: no sequential order of the operations explains what was observed: %s; program %s", why, desc)
			return
		}
		x.Nontrivial(desc)
	})
	// sequential histories: map model + fails closed
	depth := x.Pick(4, 5)
	x.Explore("sequential", ExploreOpts{ShardDepth: 2, Bound: fmt.Sprintf("all sequences of <=%d registry operations; name m is a fresh name (10 lengths) or the init-time built-in %s (overwritten, restored afterwards)", depth, c17Builtin)}, func(c *Chooser) {
		serial := nextSerial(x)
		names := []string{"n" + serial, "m" + serial, "never" + serial}
		// name lengths around typical thresholds; last choice: m is a built-in
		padChoice := c.Choose(11)
		builtin := padChoice == 10
		if pad := []int{0, 61, 62, 63, 64, 65, 127, 128, 256, 300, 0}[padChoice]; pad > 0 {
			for i := range names {
				names[i] += strings.Repeat("L", pad)
			}
		}
		// the never-registered name is a proper prefix of the registered name n
		names[2] = "n" + serial + names[0][len("n"+serial):]
		names[0] = names[2] + "-full"
		var initial map[string]int
		if builtin {
			names[1] = c17Builtin
			defer resetNames(names[0], names[2])
			defer decoration.RegisterDecorationName(c17Builtin, c17Orig())
			initial = prepareNames(names[0])
			decoration.RegisterDecorationName(c17Builtin, c17Orig())
			initial[c17Builtin] = 9
		} else {
			defer resetNames(names...)
			initial = prepareNames(names[0], names[1])
		}
		var log []regEvent
		clock := 0
		var d []string
		for i := 0; i < depth; i++ {
			k := c.Choose(len(c17SeqMenu) + 1)
			if k == 0 {
				break
			}
			op := c17SeqMenu[k-1]
			d = append(d, op.String())
			c.Logf("%s", op)
			c17Exec(op, names, 0, &clock, &log)
			x.Transition(1)
			// names are matched exactly: whatever is registered under n, its upper-case variant is unknown, also through auto
			x.Clause("C17.fails_closed")
			{
				at := tabular.New()
				at.AddRowItems("a")
				up := strings.ToUpper(names[0])
				if out, err := auto.Render(at, up); err == nil || out != "" {
					x.Fail("C17.fails_closed", []string{"sequential", "fails_closed", "case_variant_of_a_registered_name"}, "auto.Render(t, %q) rendered (%d bytes, err %v) although only %q can be registered; ops %v", up, len(out), err, names[0], d)
					return
				}
			}
			x.Clause("C17.sequential_model")
			if ok, why := c17Linearizable(log, names, initial); !ok {
				tg := []string{"sequential"}
				if op.kind == "render" || op.kind == "rendernested" {
					tg = append(tg, "fails_closed")
				}
				x.Fail("C17.sequential_model", tg, "sequential history not explained by a map: %s; ops %v", why, d)
				return
			}
		}
		x.State(fmt.Sprint(d))
		if len(d) > 1 {
			x.Nontrivial(fmt.Sprint(d))
		}
	})
	// the same operations on a registry that already holds k other names (whatever the registry keeps per name -
	// a slice with spare capacity, buckets - is at a different fill level for every k)
	crowd := []int{1, 2, 3, 4, 7, 9, 10, 11, 15, 27}
	cdepth := x.Pick(3, 4)
	x.Explore("sequential-crowded-registry", ExploreOpts{ShardDepth: 2, Bound: fmt.Sprintf("k in %v other names registered first, then all sequences of <=%d registry operations of the sequential menu, checked against the map model after each step", crowd, cdepth)}, func(c *Chooser) {
		serial := nextSerial(x)
		k := crowd[c.Choose(len(crowd))]
		names := []string{"n" + serial + "-full", "m" + serial, "n" + serial}
		var extras []string
		for i := 0; i < k; i++ {
			extras = append(extras, fmt.Sprintf("x%s-%02d", serial, i))
		}
		defer resetNames(append(append([]string{}, names...), extras...)...)
		initial := prepareNames(names[0], names[1])
		for _, e := range extras {
			decoration.RegisterDecorationName(e, decorFor(3))
		}
		c.Logf("%d other names registered first", k)
		var log []regEvent
		clock := 0
		var d []string
		for i := 0; i < cdepth; i++ {
			o := c.Choose(len(c17SeqMenu) + 1)
			if o == 0 {
				break
			}
			op := c17SeqMenu[o-1]
			d = append(d, op.String())
			c.Logf("%s", op)
			c17Exec(op, names, 0, &clock, &log)
			x.Transition(1)
			x.Clause("C17.sequential_model")
			if ok, why := c17Linearizable(log, names, initial); !ok {
				tg := []string{"sequential", fmt.Sprintf("other_names_registered_first:%d", k)}
				if op.kind == "render" || op.kind == "rendernested" {
					tg = append(tg, "fails_closed")
				}
				x.Fail("C17.sequential_model", tg, "sequential history not explained by a map: %s; %d other names registered first; ops %v", why, k, d)
				return
			}
			// every one of the other names is still listed exactly once and still resolves
			x.Clause("C17.sequential_model")
			l := decoration.RegisteredDecorationNames()
			cnt := map[string]int{}
			for _, n := range l {
				cnt[n]++
			}
			for _, e := range extras {
				if cnt[e] != 1 || decoration.Named(e) != decorFor(3) {
					x.Fail("C17.sequential_model", []string{"sequential", fmt.Sprintf("other_names_registered_first:%d", k), "bystander_name_disturbed"}, "after %v the bystander name %q is listed %d times / resolves to its decoration: %v; listing %v", d, e, cnt[e], decoration.Named(e) == decorFor(3), l)
					return
				}
			}
		}
		x.State(fmt.Sprint(k, d))
		if len(d) > 0 {
			x.Nontrivial(fmt.Sprint(k, d))
		}
	})
	// one long-lived TextTable whose decoration is changed between renders: it must refuse to render
	// exactly while its current decoration name is unknown
	ldepth := x.Pick(5, 6)
	x.Explore("texttable-lifecycle", ExploreOpts{ShardDepth: 2, Bound: fmt.Sprintf("all sequences of <=%d operations {SetDecorationNamed(known a), SetDecorationNamed(known b), SetDecorationNamed(unknown), SetDecoration(custom), Register the unknown name / re-register it with another decoration, Render} on one TextTable", ldepth)}, func(c *Chooser) {
		serial := nextSerial(x)
		late, never := "late"+serial+"-full", "late"+serial
		defer resetNames(late)
		lateInit := prepareNames(late)
		tt := texttable.New()
		tt.AddHeaders("h")
		tt.AddRowItems("a")
		cur, curName := decoration.UTF8BoxHeavy(), "default"
		lateRegistered := lateInit[late] != 0
		lateDecor := lateInit[late]
		var ops []string
		renders := 0
		for i := 0; i < ldepth; i++ {
			k := c.Choose(7)
			if k == 0 {
				break
			}
			x.Transition(1)
			switch k {
			case 1, 2:
				n := []string{"ascii-simple", "utf8-double"}[k-1]
				c.Logf("tt.SetDecorationNamed(%q)", n)
				_, err := tt.SetDecorationNamed(n)
				x.Clause("C17.fails_closed")
				if err != nil {
					x.Fail("C17.fails_closed", []string{"lifecycle"}, "SetDecorationNamed(%q) of a built-in name returned %v", n, err)
				}
				cur, curName = decoration.Named(n), n
			case 3:
				name, known := late, lateRegistered
				if c.Bool() {
					name, known = never, false
				}
				c.Logf("tt.SetDecorationNamed(%q)   // registered: %v", name, known)
				_, err := tt.SetDecorationNamed(name)
				x.Clause("C17.fails_closed")
				if (err != nil) != !known {
					x.Fail("C17.fails_closed", []string{"lifecycle"}, "SetDecorationNamed(%q) returned error=%v although registered=%v; ops %v", name, err, known, ops)
				}
				if known {
					cur, curName = decorFor(lateDecor), name
				} else {
					cur, curName = decoration.EmptyDecoration, "unknown"
				}
			case 4:
				c.Logf("tt.SetDecoration(custom)")
				tt.SetDecoration(customDecoration())
				cur, curName = customDecoration(), "custom"
			case 5:
				// registers the name, or RE-registers it with the other of two decorations
				next := 1
				if lateRegistered && lateDecor == 1 {
					next = 2
				}
				c.Logf("decoration.RegisterDecorationName(%q, d%d)   // does not change the table's current decoration", late, next)
				decoration.RegisterDecorationName(late, decorFor(next))
				lateRegistered, lateDecor = true, next
			case 6:
				c.Logf("tt.Render()   // current decoration: %s", curName)
				out, err := tt.Render()
				renders++
				tags := []string{"lifecycle", "fails_closed"}
				if renders > 1 {
					tags = append(tags, "rendered_before_decoration_changed")
				}
				x.Clause("C17.fails_closed")
				if cur == decoration.EmptyDecoration {
					if err == nil || out != "" {
						x.Fail("C17.fails_closed", tags, "the table's decoration name is unknown, yet Render returned %d bytes and error %v (it must refuse to render); ops %v\n%s", len(out), err, ops, out)
					}
				} else {
					ref := texttable.New()
					ref.AddHeaders("h")
					ref.AddRowItems("a")
					ref.SetDecoration(cur)
					want, _ := ref.Render()
					if err != nil || out != want {
						x.Fail("C17.fails_closed", tags, "current decoration %s: Render gives (err %v)\n%s\nwant\n%s\nops %v", curName, err, out, want, ops)
					}
				}
			}
			ops = append(ops, fmt.Sprint(k))
		}
		x.State(fmt.Sprint(ops))
		if renders > 0 && len(ops) > 1 {
			x.Nontrivial(fmt.Sprint(ops))
		}
	})
	runC17sched(x, "3-threads-1-op", 3, 1, x.Pick(2, 4))
	runC17sched(x, "builtin-name-3-threads-1-op", 3, 1, x.Pick(2, 3))
	runC17sched(x, "2-threads-2-ops", 2, 2, x.Pick(3, 1000))
	// names AND decoration values never used before in the process: first-time registrations are explored even when
	// nothing can be removed from the registry (fallback mode), and nothing an earlier execution left behind - a name the
	// reset helper could not fully remove, a stored decoration value - can stand in for what this execution registers
	runC17schedMenu(x, "fresh-names-2-threads-2-ops", 2, 2, x.Pick(1, 3), c17FreshMenu, true)
	runC17schedMenu(x, "fresh-names-3-threads-1-op", 3, 1, x.Pick(2, 3), c17FreshMenu, true)
	if x.Thorough() {
		runC17sched(x, "3-threads-2-ops", 3, 2, 2)
	}
}

// ---------------------------------------------------------------------------
// C16

type pointWriter struct {
	buf bytes.Buffer
	id  string
}

func (w *pointWriter) Write(p []byte) (int, error) {
	vrt.Point("write", w.id)
	return w.buf.Write(p)
}

type c16CB struct {
	log *[]string
	id  string
}

func (cb *c16CB) UpdateProperties(po tabular.PropertyOwner) error {
	vrt.Point("callback", cb.id)
	if c, ok := po.(*tabular.Cell); ok {
		*cb.log = append(*cb.log, c.String())
		// every thread stamps the cells of its own table
		c.SetProperty(c16StampKey, cb.id)
	}
	return nil
}

type c16Key string

const c16StampKey = c16Key("stamp")

// c16Template is a cell VALUE shared by all threads: each copies it into its own table.  It carries a
// property, so the copies start out sharing whatever the property storage shares between cell copies.
func c16Template() tabular.Cell {
	c := tabular.NewCell("tmpl")
	c.SetProperty(c16StampKey, "template")
	c.SetProperty(c16Key("other"), "kept")
	return c
}

type c16Format struct {
	name string
	mk   func() tabular.Table
	to   func(t tabular.Table, w io.Writer) error
	// toID (if set) is used instead of to: the renderer is configured with something specific to the thread
	toID func(t tabular.Table, w io.Writer, id int) error
}

func c16Formats() []c16Format {
	return []c16Format{
		{name: "csv", mk: func() tabular.Table { return csv.New() }, to: func(t tabular.Table, w io.Writer) error { return csv.Wrap(t).RenderTo(w) }},
		{name: "json", mk: func() tabular.Table { return tjson.New() }, to: func(t tabular.Table, w io.Writer) error { return tjson.Wrap(t).RenderTo(w) }},
		{name: "markdown", mk: func() tabular.Table { return markdown.New() }, to: func(t tabular.Table, w io.Writer) error { return markdown.Wrap(t).RenderTo(w) }},
		{name: "html", mk: func() tabular.Table { return thtml.New() }, toID: func(t tabular.Table, w io.Writer, id int) error {
			// every thread has its OWN row-class generator and caption
			ht := thtml.Wrap(t).SetRowClassGenerator(func(n int, ctx interface{}) template.HTMLAttr {
				return template.HTMLAttr(fmt.Sprintf("t%d-r%d", id, n))
			}, nil)
			ht.Caption = fmt.Sprintf("caption of thread %d", id)
			return ht.RenderTo(w)
		}},
		{name: "text(named utf8-light)", mk: func() tabular.Table { return texttable.New() }, to: func(t tabular.Table, w io.Writer) error {
			tt := texttable.Wrap(t)
			if _, err := tt.SetDecorationNamed("utf8-light"); err != nil {
				return err
			}
			return tt.RenderTo(w)
		}},
		{name: "text(custom)", mk: func() tabular.Table { return tabular.New() }, to: func(t tabular.Table, w io.Writer) error {
			tt := texttable.Wrap(t)
			tt.SetDecoration(customDecoration())
			return tt.RenderTo(w)
		}},
	}
}

// c16Body: build an own table, register a recording callback, render twice to an own writer.
func c16Body(f c16Format, id int, tmpl *tabular.Cell, out *[]string, yield func(string)) {
	tag := fmt.Sprintf("T%d", id)
	yield("New")
	t := f.mk()
	yield("AddHeaders")
	t.AddHeaders("k1", "k2")
	if id%2 == 0 {
		// every other thread right-aligns its second column and centres column-0 defaults
		t.Column(2).SetProperty(align.PropertyType, align.Right)
	}
	yield("AddRow(template copy)")
	t.AddRow(tabular.NewRow().Add(*tmpl).Add(tabular.NewCell(10 * id)))
	yield("AddRowItems")
	t.AddRowItems(tag+"b\nｗｗ line2 "+strings.Repeat(tag, 20), strings.Repeat("\""+tag, 25)) // multi-line, wide, 60- and 75-byte fields
	// a row obtained from the table (sized for its current 2 columns) and then given one cell more than that
	yield("AppendNewRow + 3 cells")
	// its outer cells are the same two strings (of different display width) in every thread's table: whatever the
	// library remembers about a string across tables is looked up again by the other threads
	// the middle cell holds a value of the SAME type in every thread, empty (encodes as {}) in even threads, not in odd ones
	labels := map[string]int{}
	if id%2 == 1 {
		labels["k"] = id
	}
	t.AppendNewRow().Add(tabular.NewCell("repeat-wide-ｗｗ")).Add(tabular.NewCell(labels)).Add(tabular.NewCell("rep-é"))
	// the header follows the table's growth (a row wider than the header would make JSON refuse the table)
	yield("AddHeaders(3)")
	t.AddHeaders("k1", "k2", "k3")
	var cblog []string
	yield("RegisterPropertyCallback")
	if err := t.RegisterPropertyCallback(t, tabular.CB_AT_RENDER_PRECELL, tabular.CB_ON_CELL, &c16CB{&cblog, tag}); err != nil {
		*out = append(*out, "register error: "+err.Error())
	}
	for r := 0; r < 2; r++ {
		yield("RenderTo")
		w := &pointWriter{id: tag}
		var err error
		if f.toID != nil {
			err = f.toID(t, w, id)
		} else {
			err = f.to(t, w)
		}
		*out = append(*out, fmt.Sprintf("render %d: err=%v\n%s", r+1, err, w.buf.String()))
	}
	var stamps []string
	for _, r := range t.AllRows() {
		for i := range r.Cells() {
			stamps = append(stamps, fmt.Sprint(r.Cells()[i].GetProperty(c16StampKey), "/", r.Cells()[i].GetProperty(c16Key("other"))))
		}
	}
	*out = append(*out, fmt.Sprintf("callback log: %q errors: %v", cblog, t.Errors()))
	*out = append(*out, fmt.Sprintf("stamps on own cells: %v; template still: %v/%v", stamps, tmpl.GetProperty(c16StampKey), tmpl.GetProperty(c16Key("other"))))
}

// c16StrRenderers: the string-returning Render() of every format (the wrappers' own buffers, whatever they are taken
// from), and for the text formats a render that is REFUSED first (unknown decoration name).
type c16Str struct {
	name string
	mk   func() tabular.Table
	str  func(t tabular.Table, id int) (string, error)
	fail func(t tabular.Table) (string, error)
}

func c16StrFormats() []c16Str {
	refused := func(t tabular.Table) (string, error) {
		tt := texttable.Wrap(t)
		tt.SetDecorationNamed("c16-no-such-decoration")
		return tt.Render()
	}
	return []c16Str{
		{"csv", func() tabular.Table { return csv.New() }, func(t tabular.Table, id int) (string, error) { return csv.Wrap(t).Render() }, nil},
		{"json", func() tabular.Table { return tjson.New() }, func(t tabular.Table, id int) (string, error) { return tjson.Wrap(t).Render() }, nil},
		{"markdown", func() tabular.Table { return markdown.New() }, func(t tabular.Table, id int) (string, error) { return markdown.Wrap(t).Render() }, nil},
		{"html", func() tabular.Table { return thtml.New() }, func(t tabular.Table, id int) (string, error) {
			ht := thtml.Wrap(t).SetRowClassGenerator(func(n int, ctx interface{}) template.HTMLAttr {
				return template.HTMLAttr(fmt.Sprintf("t%d-r%d", id, n))
			}, nil)
			return ht.Render()
		}, nil},
		{"text(named utf8-light)", func() tabular.Table { return texttable.New() }, func(t tabular.Table, id int) (string, error) {
			tt := texttable.Wrap(t)
			if _, err := tt.SetDecorationNamed("utf8-light"); err != nil {
				return "", err
			}
			return tt.Render()
		}, refused},
		{"text(package-level Render)", func() tabular.Table { return tabular.New() }, func(t tabular.Table, id int) (string, error) { return texttable.Render(t) }, refused},
	}
}

// c16StrBody: build a small own table, have one render refused (text formats), then take the string result of two renders.
func c16StrBody(f c16Str, id int, out *[]string, yield func(string)) {
	tag := fmt.Sprintf("S%d", id)
	yield("New")
	t := f.mk()
	yield("AddHeaders")
	t.AddHeaders("k1", "k2")
	yield("AddRowItems")
	t.AddRowItems(tag+"-a\nline2", strings.Repeat("ｗ"+tag, 3+id))
	t.AddRowItems("shared", 10*id)
	var cblog []string
	if err := t.RegisterPropertyCallback(t, tabular.CB_AT_RENDER_PRECELL, tabular.CB_ON_CELL, &c16CB{&cblog, tag}); err != nil {
		*out = append(*out, "register error: "+err.Error())
	}
	if f.fail != nil {
		yield("refused Render()")
		s, err := f.fail(t)
		*out = append(*out, fmt.Sprintf("refused render: error=%v text=%q", err != nil, s))
	}
	for r := 0; r < 2; r++ {
		yield("Render()")
		s, err := f.str(t, id)
		*out = append(*out, fmt.Sprintf("render %d: err=%v\n%s", r+1, err, s))
	}
}

func c16RegistryBody(serial string, out *[]string, yield func(string)) {
	name := "c16-" + serial
	yield("Register")
	decoration.RegisterDecorationName(name, customDecoration())
	yield("List")
	l := decoration.RegisteredDecorationNames()
	found := false
	for _, n := range l {
		if n == name {
			found = true
		}
	}
	*out = append(*out, fmt.Sprintf("listing sorted=%v has-own=%v has-light=%v", sort.StringsAreSorted(l), found, decoration.Named("utf8-light") != decoration.EmptyDecoration))
	yield("Named")
	*out = append(*out, fmt.Sprint("own decoration registered: ", decoration.Named(name) == customDecoration()))
}

func runC16(x *X) {
	formats := c16Formats()
	// cold start: the very first thing this process does with the library is a concurrent program,
	// so that lazily initialised package state is initialised under the scheduler's eyes.
	var coldOuts [][]string
	var coldFormats []int
	x.Explore("cold-start", ExploreOpts{Cold: true, Bound: "one program per worker process (format pair chosen by shard number), executed before anything else touches the library; default schedule with one forced switch"}, func(c *Chooser) {
		p := c.Choose(x.NShards)
		fi := []int{p % len(formats), (p/2 + 3) % len(formats)}
		coldFormats = fi
		desc := "cold: " + formats[fi[0]].name + " || " + formats[fi[1]].name
		c.Logf("program %s", desc)
		outs := make([][]string, 2)
		tmpl := c16Template()
		bodies := []func(){
			func() { c16Body(formats[fi[0]], 0, &tmpl, &outs[0], vrt.Yield) },
			func() { c16Body(formats[fi[1]], 1, &tmpl, &outs[1], vrt.Yield) },
		}
		res := schedule(c, bodies, 0)
		coldOuts = outs
		schCommon(x, c, "C16", res, []string{"family:cold-start", "first_use_in_process"}, desc)
		x.Nontrivial(desc)
	})
	// outputs of each body when run alone: each in a FRESH PROCESS of this very binary (one managed thread), so that
	// nothing any other table has ever done in a process - not even a one-way latch in package state - is part of
	// the reference.  Falls back to an in-process run if the binary cannot be re-executed.
	alone := map[string][]string{}
	exe, exeErr := os.Executable()
	for i, f := range formats {
		for id := 0; id < 3; id++ {
			var out []string
			fresh := false
			if exeErr == nil {
				if b, err := exec.Command(exe, "c16alone", fmt.Sprint(i), fmt.Sprint(id)).Output(); err == nil && json.Unmarshal(b, &out) == nil {
					fresh = true
				}
			}
			if !fresh {
				x.Note("alone_reference_computed_in_process")
				out = nil
				tmpl := c16Template()
				f, id := f, id
				vrt.Run([]func(){func() { c16Body(f, id, &tmpl, &out, func(string) {}) }}, func(vrt.PointInfo) int { return 0 }, false, 200000)
			}
			alone[fmt.Sprint(i, id)] = out
			// sanity of the driver itself: a thread whose own render is refused explores nothing of that renderer
			for _, o := range out {
				if strings.HasPrefix(o, "render ") && !strings.Contains(strings.SplitN(o, "\n", 2)[0], "err=<nil>") {
					panic("harness: the C16 thread body for format " + f.name + " does not render: " + strings.SplitN(o, "\n", 2)[0])
				}
			}
		}
	}
	if coldOuts != nil {
		x.Clause("C16.equal_alone")
		for t := 0; t < 2; t++ {
			want := alone[fmt.Sprint(coldFormats[t], t)]
			if strings.Join(coldOuts[t], "\x00") != strings.Join(want, "\x00") {
				x.curFamily = "cold-start"
				x.Fail("C16.equal_alone", []string{"family:cold-start"}, "cold-start thread %d (%s) produced\n%s\nbut alone it produces\n%s", t, formats[coldFormats[t]].name, strings.Join(coldOuts[t], "\n"), strings.Join(want, "\n"))
			}
		}
	}
	run := func(family string, nthreads int, withRegistry bool, bound int) {
		x.Explore(family, ExploreOpts{ShardDepth: nthreads + 3, Bound: fmt.Sprintf("%d rendering threads (all format tuples over %d formats)%s, every schedule with <=%d preemptions over write/callback/step/sync/access points", nthreads, len(formats), map[bool]string{true: " + 1 registry thread", false: ""}[withRegistry], bound)}, func(c *Chooser) {
			fi := make([]int, nthreads)
			var pd []string
			for t := range fi {
				fi[t] = c.Choose(len(formats))
				pd = append(pd, formats[fi[t]].name)
			}
			desc := strings.Join(pd, " || ")
			if withRegistry {
				desc += " || registry(Register,List,Named)"
			}
			c.Logf("program %s", desc)
			outs := make([][]string, nthreads+1)
			var bodies []func()
			tmpl := c16Template()
			for t := 0; t < nthreads; t++ {
				t := t
				bodies = append(bodies, func() { c16Body(formats[fi[t]], t, &tmpl, &outs[t], vrt.Yield) })
			}
			serial := nextSerial(x)
			defer resetNames("c16-" + serial)
			prepareNames("c16-" + serial)
			if withRegistry {
				bodies = append(bodies, func() { c16RegistryBody(serial, &outs[nthreads], vrt.Yield) })
			}
			res := schedule(c, bodies, bound)
			tags := []string{"family:" + family}
			for _, p := range pd {
				tags = appendUnique(tags, "format:"+p)
			}
			if !schCommon(x, c, "C16", res, tags, desc) {
				return
			}
			x.Clause("C16.equal_alone")
			for t := 0; t < nthreads; t++ {
				want := alone[fmt.Sprint(fi[t], t)]
				if strings.Join(outs[t], "\x00") != strings.Join(want, "\x00") {
					x.Fail("C16.equal_alone", tags, "thread %d (%s) produced, under this schedule,\n%s\nbut alone it produces\n%s\nprogram %s", t, formats[fi[t]].name, strings.Join(outs[t], "\n"), strings.Join(want, "\n"), desc)
					return
				}
			}
			if withRegistry {
				want := []string{"listing sorted=true has-own=true has-light=true", "own decoration registered: true"}
				if strings.Join(outs[nthreads], "|") != strings.Join(want, "|") {
					x.Fail("C16.equal_alone", append(tags, "registry_thread"), "registry thread observed %q, alone it observes %q; program %s", outs[nthreads], want, desc)
					return
				}
			}
			x.State(desc)
			x.Nontrivial(desc)
			x.Outcome(desc)
		})
	}
	// string results: Render() instead of RenderTo(own writer), one refused render first in the text threads
	sformats := c16StrFormats()
	salone := map[string][]string{}
	for i, f := range sformats {
		for id := 0; id < 2; id++ {
			var out []string
			fresh := false
			if exeErr == nil {
				if b, err := exec.Command(exe, "c16alone", fmt.Sprint(i), fmt.Sprint(id), "str").Output(); err == nil && json.Unmarshal(b, &out) == nil {
					fresh = true
				}
			}
			if !fresh {
				x.Note("alone_reference_computed_in_process")
				out = nil
				f, id := f, id
				vrt.Run([]func(){func() { c16StrBody(f, id, &out, func(string) {}) }}, func(vrt.PointInfo) int { return 0 }, false, 200000)
			}
			salone[fmt.Sprint(i, id)] = out
			for _, o := range out {
				if strings.HasPrefix(o, "render ") && !strings.Contains(strings.SplitN(o, "\n", 2)[0], "err=<nil>") {
					panic("harness: the C16 string-result body for format " + f.name + " does not render: " + strings.SplitN(o, "\n", 2)[0])
				}
				if strings.HasPrefix(o, "refused render") && o != `refused render: error=true text=""` {
					panic("harness: the refused render of format " + f.name + " was not refused: " + o)
				}
			}
		}
	}
	sbound := x.Pick(2, 3)
	x.Explore("2-renderers-string-results", ExploreOpts{ShardDepth: 5, Bound: fmt.Sprintf("2 threads (all ordered pairs of %d formats) each building a small own table and calling the string-returning Render() twice, the text threads after one refused Render() (unknown decoration name); every schedule with <=%d preemptions over callback/step/sync/access points", len(sformats), sbound)}, func(c *Chooser) {
		fi := []int{c.Choose(len(sformats)), c.Choose(len(sformats))}
		desc := sformats[fi[0]].name + " || " + sformats[fi[1]].name + " (string results)"
		c.Logf("program %s", desc)
		outs := make([][]string, 2)
		bodies := []func(){
			func() { c16StrBody(sformats[fi[0]], 0, &outs[0], vrt.Yield) },
			func() { c16StrBody(sformats[fi[1]], 1, &outs[1], vrt.Yield) },
		}
		res := schedule(c, bodies, sbound)
		tags := []string{"family:2-renderers-string-results"}
		for _, k := range fi {
			tags = appendUnique(tags, "format:"+sformats[k].name)
		}
		if !schCommon(x, c, "C16", res, tags, desc) {
			return
		}
		x.Clause("C16.equal_alone")
		for t := 0; t < 2; t++ {
			want := salone[fmt.Sprint(fi[t], t)]
			if strings.Join(outs[t], "\x00") != strings.Join(want, "\x00") {
				x.Fail("C16.equal_alone", tags, "thread %d (%s) produced, under this schedule,\n%s\nbut alone it produces\n%s\nprogram %s", t, sformats[fi[t]].name, strings.Join(outs[t], "\n"), strings.Join(want, "\n"), desc)
				return
			}
		}
		x.State(desc)
		x.Nontrivial(desc)
		x.Outcome(desc)
	})
	run("2-renderers+registry", 2, true, x.Pick(1, 2))
	run("2-renderers", 2, false, x.Pick(2, 3))
	if x.Thorough() {
		run("3-renderers", 3, false, 1)
	}
}

func init() {
	register(&Check{
		ID:        "C17",
		Level:     "model_checking",
		Overlay:   true,
		Technique: "stateless model checking of the real registry code under a cooperative scheduler (overlay-instrumented: sync shim + access hooks on mutable package-level variables), all interleavings per program; vector-clock race detection and brute-force linearizability against a sequential map; plus exhaustive sequential histories",
		Rule: "family texttable-lifecycle: every sequence of <=5 (thorough 6) operations {set a known name, another known name, an unknown name, a custom decoration, register the unknown name, Render} on ONE long-lived TextTable (refuses to render exactly while its current name is unknown, otherwise renders with the current decoration); family sequential: every sequence of <=4 (thorough 5) operations from {Register(n,d1), Register(n,d2), Register(m,d1), Named(n), Named(never), List, List followed by the caller overwriting/appending to/sorting the returned slice, SetDecorationNamed(n)+Render, SetDecorationNamed(never)+Render} checked against a map model after each step (incl. fails-closed: unknown name => error and refused render); " +
			"families 3-threads-1-op (9^3 programs, <=2 preemptions; thorough <=4), 2-threads-2-ops (9^4 programs, <=3 preemptions; thorough all), thorough 3-threads-2-ops (<=2 preemptions): names forced to collide, every schedule explored, each followed by final reads; " +
			"families fresh-names-2-threads-2-ops (<=1 preemption, thorough 3) and fresh-names-3-threads-1-op (<=2, thorough 3) over a 7-op menu with names AND decoration values never used before in the process; " +
			"family sequential-crowded-registry: k in {1,2,3,4,7,9,10,11,15,27} other names registered first, then every sequence of <=3 (thorough 4) operations, bystander names checked after every step; " +
			"oracle per schedule: no deadlock, no panic, no pair of conflicting accesses to the registry map unordered by happens-before, and the call/return history linearizable; non-trivial = every concurrent program; distinct by program and by observed outcome vector",
		Assumptions: []string{"interleavings are explored at the granularity of hooked points (sync operations, accesses to package-level variables that are assigned outside init, harness yields); memory-model effects below that are only seen by the separate free-running -race pass",
			"aliasing through pointers/method receivers and state inside the standard library are not instrumented", "the registry is process-global: every execution uses names unique to it"},
		QuickBudget: 180 * time.Second, ThoroughBudget: 30 * time.Minute,
		Run: runC17,
	})
	register(&Check{
		ID:        "C16",
		Level:     "model_checking",
		Overlay:   true,
		Technique: "stateless model checking of concurrent build+render programs on the real code under a cooperative scheduler (overlay-instrumented), preemption-bounded DFS; per-schedule oracle: outputs equal the same program run alone, vector-clock race freedom on instrumented package-level state, no deadlock",
		Rule: "family cold-start: in each of the 16 worker processes the very first use of the library is a two-thread program (lazily initialised package state is initialised under the scheduler); programs: every ordered pair of 6 formats (csv, json, markdown, html+row classes, text by registered name, text custom), each thread creating its own table through that package's New, populating it, registering a recording render callback and rendering twice to its own writer, with and without a third thread that registers a decoration, lists and looks up names; " +
			"thread bodies differ (every other thread right-aligns a column), copy one shared template cell VALUE carrying properties into their own table, stamp their own cells from the callback and read the stamps back; scheduling points: every Write on the threads' writers, every callback invocation, every harness step, every sync operation (Mutex, RWMutex, Once, WaitGroup, Pool as a deterministic LIFO list, sync/atomic on package-level variables with acquire/release edges) and every access to a mutable package-level variable of the repository; all schedules with <=1 preemption with the registry thread and <=2 without it (thorough: 2 and 3, plus all triples of formats with <=1); family 2-renderers-string-results: two threads (all ordered pairs of 6 formats) take the string result of Render() twice, the text threads after one refused render, <=2 preemptions (thorough 3); element accesses through a local that directly aliases a package-level map or slice count as accesses of that variable; non-trivial = every program; distinct by program",
		Assumptions: []string{"bounded by the preemption bound and the hooked-point granularity; state in the standard library and third-party packages (html/template, runewidth, encoding/json caches) is not instrumented: the separate free-running -race pass of the same thread bodies is supporting evidence for it",
			"tables and wrappers are never shared between threads (the property is about distinct tables)"},
		QuickBudget: 240 * time.Second, ThoroughBudget: 40 * time.Minute,
		Run: runC16,
	})
	extraCommands["racepass"] = racePass
	// c16alone <format index> <thread id>: the body of one C16 thread alone in this (fresh) process; prints its outputs as JSON
	extraCommands["c16alone"] = func(args []string) {
		var fi, id int
		if len(args) != 2 && len(args) != 3 {
			os.Exit(2)
		}
		fmt.Sscan(args[0], &fi)
		fmt.Sscan(args[1], &id)
		if len(args) == 3 {
			sf := c16StrFormats()
			var out []string
			vrt.Run([]func(){func() { c16StrBody(sf[fi], id, &out, func(string) {}) }}, func(vrt.PointInfo) int { return 0 }, false, 200000)
			b, _ := json.Marshal(out)
			os.Stdout.Write(b)
			return
		}
		formats := c16Formats()
		var out []string
		tmpl := c16Template()
		vrt.Run([]func(){func() { c16Body(formats[fi], id, &tmpl, &out, func(string) {}) }}, func(vrt.PointInfo) int { return 0 }, false, 200000)
		b, _ := json.Marshal(out)
		os.Stdout.Write(b)
	}
	extraCommands["selftest-reset"] = func(args []string) {
		if vrt.ResetHook == nil {
			os.Exit(1)
		}
		has := func(l []string, n string) int {
			k := 0
			for _, e := range l {
				if e == n {
					k++
				}
			}
			return k
		}
		for round := 0; round < 3; round++ {
			before := len(decoration.RegisteredDecorationNames())
			decoration.RegisterDecorationName("selftest-a", decorFor(1))
			decoration.RegisterDecorationName("selftest-b", decorFor(2))
			l := decoration.RegisteredDecorationNames()
			if has(l, "selftest-a") != 1 || has(l, "selftest-b") != 1 || len(l) != before+2 {
				os.Exit(1)
			}
			vrt.ResetHook([]string{"selftest-a", "selftest-b"})
			l = decoration.RegisteredDecorationNames()
			if has(l, "selftest-a") != 0 || has(l, "selftest-b") != 0 || len(l) != before ||
				decoration.Named("selftest-a") != decoration.EmptyDecoration || !sort.StringsAreSorted(l) {
				os.Exit(1)
			}
		}
		os.Exit(0)
	}
}

// racePass: the same thread bodies, free-running under the Go race detector (supporting evidence only).
func racePass(args []string) {
	fs := flag.NewFlagSet("racepass", flag.ExitOnError)
	iters := fs.Int("iters", 50, "")
	fs.Parse(args)
	formats := c16Formats()
	alone := map[string][]string{}
	start := time.Now()
	bad := int64(0)
	runs := 0
	// cold iteration first: nothing has touched the library yet in this process
	{
		var wg sync.WaitGroup
		tmpl := c16Template()
		for g := 0; g < 16; g++ {
			wg.Add(1)
			g := g
			go func() {
				defer wg.Done()
				var out []string
				c16Body(formats[g%len(formats)], g%2, &tmpl, &out, func(string) {})
			}()
			runs++
		}
		wg.Wait()
	}
	for i, f := range formats {
		for id := 0; id < 2; id++ {
			var out []string
			tmpl := c16Template()
			c16Body(f, id, &tmpl, &out, func(string) {})
			alone[fmt.Sprint(i, id)] = out
		}
	}
	for it := 0; it < *iters; it++ {
		var wg sync.WaitGroup
		tmpl := c16Template()
		for g := 0; g < 16; g++ {
			wg.Add(1)
			g := g
			go func() {
				defer wg.Done()
				if g%4 == 3 {
					var out []string
					c16RegistryBody(fmt.Sprintf("race%d-%d", it, g), &out, func(string) {})
					names := []string{"rn", "rm", "rnever"}
					var log []regEvent
					clock := 0
					for _, op := range c17Menu {
						c17Exec(op, names, g, &clock, &log)
					}
					return
				}
				fi := (g + it) % len(formats)
				id := (g / 4) % 2
				var out []string
				c16Body(formats[fi], id, &tmpl, &out, func(string) {})
				if strings.Join(out, "\x00") != strings.Join(alone[fmt.Sprint(fi, id)], "\x00") {
					atomic.AddInt64(&bad, 1)
					fmt.Fprintf(os.Stderr, "MISMATCH format %s:\n%s\n--- alone:\n%s\n", formats[fi].name, strings.Join(out, "\n"), strings.Join(alone[fmt.Sprint(fi, id)], "\n"))
				}
			}()
			runs++
		}
		wg.Wait()
	}
	fmt.Printf("racepass goroutine_runs=%d mismatches=%d wall=%.1fs\n", runs, bad, time.Since(start).Seconds())
	if bad > 0 {
		os.Exit(3)
	}
}
