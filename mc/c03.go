package main

import (
	"fmt"
	"go.pennock.tech/tabular"
	"go.pennock.tech/tabular/texttable"
	"reflect"
	"strings"
	"time"

	"go.pennock.tech/tabular/texttable/decoration"
)

// C03 — a rendered text table is a rectangle whose columns fit their widest cell.

var c03Atoms = []string{"a", "", "abc", "a\nbc", "x\n", "\n", "ｗｗ", "é", "​", "\U0001F469‍\U0001F469‍\U0001F467", "a\x7fb", "\x1b[1mz", "a\tb"}

var decorFields = []string{"Horizontal", "Vertical", "CrossPiece", "TopDown", "VBorder", "HOuter", "HRule", "VHeader", "VBodyBorder", "VBodyInner",
	"TopLeft", "TopRight", "BottomLeft", "BottomRight", "LeftBodyRule", "RightBodyRule", "HTopDown", "BTopDown", "BBottomUp", "HBCross", "HBLeft", "HBRight"}

// glyph for field i of a custom decoration: distinct one-cell strings, some multi-byte, one with a combining mark
func decorGlyph(i int) string {
	g := []string{"-", "|", "+", "T", "!", "=", "~", ":", "I", ";", "/", "\\", "L", "J", "<", ">", "v", "y", "^", "#", "[", "]"}
	switch i {
	case 5:
		return "═"
	case 9:
		return "é"
	}
	return g[i]
}

func customFromMask(mask int) decoration.Decoration {
	var d decoration.Decoration
	v := reflect.ValueOf(&d).Elem()
	for i, f := range decorFields {
		if mask&(1<<i) != 0 {
			v.FieldByName(f).SetString(decorGlyph(i))
		}
	}
	d.Populate()
	return d
}

func init() {
	register(&Check{
		ID:        "C03",
		Level:     "exploration",
		Technique: "bounded exhaustive input/configuration enumeration (cell-text assignments, table shapes, every registered and custom decoration) rendered by the real code and compared line by line with a reference renderer transcribed from the statement, plus a whole-line width invariant in the library's measure",
		Rule: "family lifecycle: one table and one long-lived wrapper, every sequence of <=4 (thorough 5) in-place modifications (items mutated to same-width/wider/narrower/multi-line text + Update, headers replaced incl. a swap that moves width between columns, rows grown), Render and failed RenderTo, each Render compared with the reference for the current content; family texts: 7 fixed shapes x every assignment of a 13-atom pool {a, empty, abc, two-line, trailing-LF, lone LF, double-width, combining, zero-width, ZWJ emoji, DEL, ESC sequence, TAB} to <=4 cells x 3 (thorough 7) decorations; " +
			"family pairs: a 3x3 grid with header where every pair of positions ranges over the full pool; family shapes: header none/0..3, <=3 rows of sep|0..3 cells with >=1 column, 3 text patterns, all 6 registered decorations + 1 custom; " +
			"family decorations: 2 grids x custom Decoration{} with every subset of the 3 seed glyphs x each single other field (thorough: all subsets of <=3 fields) after Populate; family populate: Populate on every subset of the 22 fields with <=2 (thorough: all 2^22) members: all fields non-empty, set fields kept; " +
			"non-trivial = grid with multi-line/wide/zero-width text, ragged/zero-cell rows or separators, or a custom decoration; distinct by (grid, decoration)",
		Assumptions: []string{"display width is the library's own measure; RUNEWIDTH_EASTASIAN=0 (thorough repeats the texts family with RUNEWIDTH_EASTASIAN=1)", "no alignment settings and no size overrides here (C04)",
			"which glyph field is used at which junction follows the layout documented in the Decoration struct comment"},
		QuickBudget: 120 * time.Second, ThoroughBudget: 20 * time.Minute,
		Run: runC03,
	})
}

func c03Nontrivial(g *TGrid) bool {
	nt := false
	all := func(cs []TCell) {
		for _, c := range cs {
			if strings.ContainsAny(c.Text, "\nｗé​\U0001F469") {
				nt = true
			}
		}
	}
	all(g.Header)
	n := g.NCols()
	for _, r := range g.Rows {
		if r.Sep {
			nt = true
			continue
		}
		if len(r.Cells) < n {
			nt = true
		}
		all(r.Cells)
	}
	return nt
}

func runC03(x *X) {
	runC03Items(x)
	runC03UpdateFromCallback(x)
	registered := []DecorChoice{}
	for _, n := range decoration.RegisteredDecorationNames() {
		registered = append(registered, namedDecor(n))
	}
	custom1 := customDecor("custom{Horizontal,Vertical,HBCross}", customFromMask(1|2|1<<19))
	quickDecors := []DecorChoice{namedDecor(decoration.D_UTF8_HEAVY), namedDecor(decoration.D_ASCII_SIMPLE), namedDecor(decoration.D_NONE)}
	allDecors := append(append([]DecorChoice{}, registered...), custom1)
	pool := c03Atoms[:6]
	tdecors := quickDecors
	if x.Thorough() {
		pool = c03Atoms
		tdecors = allDecors
	}
	pool = c03Atoms

	shapes := []func() *Grid{
		func() *Grid { return &Grid{Rows: []GridRow{{Cells: make([]string, 1)}}} },
		func() *Grid {
			return &Grid{HasHeader: true, Header: make([]string, 1), Rows: []GridRow{{Cells: make([]string, 1)}}}
		},
		func() *Grid { return &Grid{Rows: []GridRow{{Cells: make([]string, 2)}, {Cells: make([]string, 2)}}} },
		func() *Grid {
			return &Grid{HasHeader: true, Header: make([]string, 2), Rows: []GridRow{{Cells: make([]string, 2)}}}
		},
		func() *Grid {
			return &Grid{HasHeader: true, Header: make([]string, 1), Rows: []GridRow{{Cells: make([]string, 2)}, {Sep: true}, {Cells: make([]string, 1)}}}
		},
		func() *Grid {
			return &Grid{Rows: []GridRow{{Cells: make([]string, 3)}, {Cells: make([]string, 0)}, {Cells: make([]string, 1)}}}
		},
		func() *Grid {
			return &Grid{HasHeader: true, Header: make([]string, 3), Rows: []GridRow{{Sep: true}, {Cells: make([]string, 1)}}}
		},
	}
	x.Explore("texts", ExploreOpts{ShardDepth: 3, Bound: fmt.Sprintf("%d shapes x all assignments of a %d-atom pool to <=4 cells x %d decorations", len(shapes), len(pool), len(tdecors))}, func(c *Chooser) {
		g := shapes[c.Choose(len(shapes))]()
		dc := tdecors[c.Choose(len(tdecors))]
		g.EachCell(func(kind string, row, col int, p *string) { *p = pool[c.Choose(len(pool))] })
		tg := fromGrid(g)
		c.Logf("decoration=%s table=%s", dc.Name, tg)
		x.Transition(1)
		if c03Nontrivial(tg) {
			x.Nontrivial(dc.Name + tg.String())
		}
		x.State(g.ShapeKey() + dc.Name)
		compareTextTable(x, "C03", tg, dc, append(g.Tags(), "decoration:"+dc.Name))
	})

	// pairs of positions over the full pool in a larger grid
	full := c03Atoms
	x.Explore("pairs", ExploreOpts{ShardDepth: 2, Bound: "3x3 grid with header: every pair of the 12 positions over the full 13-atom pool, rest 'a'"}, func(c *Chooser) {
		g := &Grid{HasHeader: true, Header: []string{"a", "a", "a"}, Rows: []GridRow{{Cells: []string{"a", "a", "a"}}, {Cells: []string{"a", "a", "a"}}, {Cells: []string{"a", "a", "a"}}}}
		var slots []*string
		g.EachCell(func(kind string, row, col int, p *string) { slots = append(slots, p) })
		i := c.Choose(len(slots))
		j := c.Choose(len(slots))
		if j <= i {
			c.Choose(1)
			c.Choose(1)
			return
		}
		*slots[i] = full[c.Choose(len(full))]
		*slots[j] = full[c.Choose(len(full))]
		dc := quickDecors[0]
		if x.Thorough() {
			dc = allDecors[c.Choose(len(allDecors))]
		}
		tg := fromGrid(g)
		c.Logf("decoration=%s table=%s", dc.Name, tg)
		x.Transition(1)
		x.Nontrivial(dc.Name + tg.String())
		compareTextTable(x, "C03", tg, dc, append(g.Tags(), "decoration:"+dc.Name))
	})

	long := LongTexts("ｗ")
	x.Explore("long-texts", ExploreOpts{ShardDepth: 2, Bound: fmt.Sprintf("3 shapes x %d long texts (63..1025 bytes, wide character in the middle/at the end, multi-byte, 12 and 40 lines) in one position x all decorations", len(long))}, func(c *Chooser) {
		shape := c.Choose(3)
		s := long[c.Choose(len(long))]
		dc := allDecors[c.Choose(len(allDecors))]
		var g *Grid
		switch shape {
		case 0:
			g = &Grid{Rows: []GridRow{{Cells: []string{s}}}}
		case 1:
			g = &Grid{HasHeader: true, Header: []string{"h1", s}, Rows: []GridRow{{Cells: []string{"a", "é"}}, {Sep: true}, {Cells: []string{"c", "ｗｗ"}}, {Cells: []string{"d", "​z"}}}}
		default:
			g = &Grid{HasHeader: true, Header: []string{"h1", "hé"}, Rows: []GridRow{{Cells: []string{"a", s}}, {Cells: []string{s}}, {Cells: []string{"ｗ", "\x7f"}}}}
		}
		tg := fromGrid(g)
		c.Logf("decoration=%s shape %d long text of %d bytes", dc.Name, shape, len(s))
		x.Transition(1)
		x.Nontrivial(fmt.Sprint(dc.Name, shape, hashStr(s)))
		compareTextTable(x, "C03", tg, dc, append(g.Tags(), "decoration:"+dc.Name, "long_text"))
	})
	patterns := [][]string{{"a", "bb", "ccc", "dddd"}, {"a\nbb", "", "x\n", "ｗ"}, {"", "", "", ""}}
	x.Explore("shapes", ExploreOpts{ShardDepth: 2, Bound: "header none/0..3, <=3 rows of sep|0..3 cells (>=1 column) x 3 text patterns x all registered decorations + 1 custom"}, func(c *Chooser) {
		g := ChooseShape(c, ShapeCfg{MaxRows: 3, MaxCells: 3, Header: []int{-1, 0, 1, 2, 3}, Sep: true})
		pat := patterns[c.Choose(len(patterns))]
		dc := allDecors[c.Choose(len(allDecors))]
		if g.NCols() == 0 {
			return
		}
		k := 0
		g.EachCell(func(kind string, row, col int, p *string) { *p = pat[(k+row)%len(pat)]; k++ })
		tg := fromGrid(g)
		c.Logf("decoration=%s table=%s", dc.Name, tg)
		x.Transition(1 + len(g.Rows))
		if c03Nontrivial(tg) {
			x.Nontrivial(dc.Name + tg.String())
		}
		x.State(g.ShapeKey())
		compareTextTable(x, "C03", tg, dc, append(g.Tags(), "decoration:"+dc.Name))
	})

	ldepth := x.Pick(4, 5)
	lops := lifeOps(false, false)
	x.Explore("lifecycle", ExploreOpts{ShardDepth: 2, Bound: fmt.Sprintf("one table + one long-lived text wrapper (2 decorations): all sequences of <=%d operations over %d in-place modifications, Render, failed RenderTo", ldepth, len(lops))}, func(c *Chooser) {
		dc := []DecorChoice{quickDecors[0], quickDecors[1]}[c.Choose(2)]
		lifecycle(x, c, "C03", ldepth, lops, false, func(t tabular.Table) lifeRenderer {
			tt := texttable.Wrap(t)
			dc.Apply(tt)
			return tt
		}, func(m *lifeModel, tags []string, out string, err error) {
			judgeTextTable(x, "C03", m.tgrid(), dc, append(tags, "decoration:"+dc.Name), out, err)
		})
	})
	wide := WideGrids()
	x.Explore("wide", ExploreOpts{ShardDepth: 2, Bound: "1 table of 56 rows and 4 tables of 10-13 columns x a multi-line/wide text in each column position in turn x all decorations"}, func(c *Chooser) {
		g0 := wide[c.Choose(len(wide))]
		dc := allDecors[c.Choose(len(allDecors))]
		g := &Grid{HasHeader: g0.HasHeader, Header: append([]string{}, g0.Header...), HeaderLast: g0.HeaderLast}
		for _, r := range g0.Rows {
			g.Rows = append(g.Rows, GridRow{Sep: r.Sep, Cells: append([]string{}, r.Cells...)})
		}
		col := c.Choose(g.NCols() + 1)
		if col > 0 {
			g.EachCell(func(kind string, row, cl int, p *string) {
				if cl == col-1 && row%2 == 0 {
					*p = *p + "\nｗｗｗ"
				}
			})
		}
		tg := fromGrid(g)
		c.Logf("decoration=%s table=%s", dc.Name, tg)
		x.Transition(1)
		x.Nontrivial(fmt.Sprint(dc.Name, g.ShapeKey(), col))
		compareTextTable(x, "C03", tg, dc, append(g.Tags(), "decoration:"+dc.Name, "ten_or_more_columns"))
	})

	// custom decorations completed by Populate
	dgrids := []*Grid{
		{HasHeader: true, Header: []string{"h", "ii"}, Rows: []GridRow{{Cells: []string{"a", "b"}}, {Sep: true}, {Cells: []string{"c\nd"}}}},
		{Rows: []GridRow{{Cells: []string{"a", "b", "c"}}, {Sep: true}, {Cells: []string{"d"}}}},
	}
	maxExtra := x.Pick(1, 3)
	x.Explore("decorations", ExploreOpts{ShardDepth: 2, Bound: fmt.Sprintf("2 grids x every subset of the 3 seed glyphs x every set of <=%d of the other 19 fields, after Populate", maxExtra)}, func(c *Chooser) {
		gi := c.Choose(len(dgrids))
		mask := c.Choose(8)
		last := 2
		for e := 0; e < maxExtra; e++ {
			k := c.Choose(len(decorFields) - last) // 0 = no more
			if k == 0 {
				break
			}
			last += k
			mask |= 1 << last
		}
		d := customFromMask(mask)
		dc := customDecor(fmt.Sprintf("custom(mask=%#x)", mask), d)
		tg := fromGrid(dgrids[gi])
		c.Logf("decoration=%s %+v table=%s", dc.Name, d, tg)
		x.Transition(1)
		x.Nontrivial(fmt.Sprint(gi, mask))
		compareTextTable(x, "C03", tg, dc, []string{"custom_decoration"})
	})

	// Populate alone: complete and faithful
	maxSet := x.Pick(2, 22)
	x.Explore("populate", ExploreOpts{ShardDepth: 2, Bound: fmt.Sprintf("Populate on every subset of the 22 glyph fields with <=%d members", maxSet)}, func(c *Chooser) {
		mask := 0
		if maxSet >= 22 {
			for i := 0; i < 22; i++ {
				if c.Bool() {
					mask |= 1 << i
				}
			}
		} else {
			last := -1
			for e := 0; e < maxSet; e++ {
				k := c.Choose(len(decorFields) - last)
				if k == 0 {
					c.Choose(1)
					break
				}
				last += k
				mask |= 1 << last
			}
		}
		d := customFromMask(mask)
		x.Transition(1)
		x.Clause("C03.populate_complete")
		v := reflect.ValueOf(d)
		for i, f := range decorFields {
			s := v.FieldByName(f).String()
			if s == "" {
				x.Fail("C03.populate_complete", []string{"populate"}, "after Populate() of a decoration with fields mask %#x set, field %s is still empty", mask, f)
			}
			if mask&(1<<i) != 0 && s != decorGlyph(i) {
				x.Fail("C03.populate_complete", []string{"populate"}, "Populate() overwrote the explicitly set field %s (%q -> %q)", f, decorGlyph(i), s)
			}
		}
		if d == decoration.EmptyDecoration {
			x.Fail("C03.populate_complete", []string{"populate"}, "populated decoration equals the empty decoration")
		}
		x.Nontrivial(fmt.Sprint("populate", mask))
	})
}
