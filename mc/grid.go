package main

// Grid: a table described by texts, used by the input-enumeration checks (C03-C08).

import (
	"fmt"
	"strings"

	"go.pennock.tech/tabular"
)

type GridRow struct {
	Sep   bool
	Cells []string
	// Literal: a row with no cells that is attached as the zero value &tabular.Row{} (nil cell slice, not a separator)
	Literal bool
}

type Grid struct {
	HasHeader  bool
	Header     []string
	Rows       []GridRow
	HeaderLast bool // AddHeaders called after the rows were added
}

func (g *Grid) NCols() int {
	n := 0
	if g.HasHeader {
		n = len(g.Header)
	}
	for _, r := range g.Rows {
		if !r.Sep && len(r.Cells) > n {
			n = len(r.Cells)
		}
	}
	return n
}

func (g *Grid) NCells() int {
	n := len(g.Header)
	for _, r := range g.Rows {
		n += len(r.Cells)
	}
	return n
}

func strItems(ss []string) []interface{} {
	out := make([]interface{}, len(ss))
	for i, s := range ss {
		out[i] = s
	}
	return out
}

// Build populates t from the grid through the public API.
func (g *Grid) Build(t tabular.Table) tabular.Table {
	if g.HasHeader && !g.HeaderLast {
		t.AddHeaders(strItems(g.Header)...)
	}
	for _, r := range g.Rows {
		if r.Sep {
			t.AddSeparator()
		} else if r.Literal {
			t.AddRow(&tabular.Row{})
		} else {
			t.AddRowItems(strItems(r.Cells)...)
		}
	}
	if g.HasHeader && g.HeaderLast {
		t.AddHeaders(strItems(g.Header)...)
	}
	return t
}

func (g *Grid) String() string {
	var sb strings.Builder
	if g.HasHeader {
		fmt.Fprintf(&sb, "header%q", g.Header)
		if g.HeaderLast {
			sb.WriteString("(added last)")
		}
	} else {
		sb.WriteString("no-header")
	}
	for _, r := range g.Rows {
		if r.Sep {
			sb.WriteString(" | SEP")
		} else if r.Literal {
			sb.WriteString(" | &Row{}")
		} else {
			fmt.Fprintf(&sb, " | %q", r.Cells)
		}
	}
	return sb.String()
}

// ShapeKey describes the shape only.
func (g *Grid) ShapeKey() string {
	var sb strings.Builder
	if g.HasHeader {
		fmt.Fprintf(&sb, "H%d", len(g.Header))
		if g.HeaderLast {
			sb.WriteString("L")
		}
	} else {
		sb.WriteString("H-")
	}
	for _, r := range g.Rows {
		if r.Sep {
			sb.WriteString("|S")
		} else if r.Literal {
			sb.WriteString("|L")
		} else {
			fmt.Fprintf(&sb, "|%d", len(r.Cells))
		}
	}
	return sb.String()
}

func (g *Grid) Tags() []string {
	var t []string
	n := g.NCols()
	zero, ragged, sep, body := false, false, false, 0
	for i, r := range g.Rows {
		if r.Sep {
			sep = true
			if i == 0 {
				t = append(t, "separator_first")
			}
			if i == len(g.Rows)-1 {
				t = append(t, "separator_last")
			}
			if i > 0 && g.Rows[i-1].Sep {
				t = append(t, "separator_consecutive")
			}
			continue
		}
		body++
		if len(r.Cells) == 0 {
			zero = true
		}
		if len(r.Cells) < n {
			ragged = true
		}
	}
	if zero {
		t = append(t, "row_with_zero_cells")
	}
	if ragged {
		t = append(t, "ragged_rows")
	}
	if sep {
		t = append(t, "has_separator")
	}
	if g.HasHeader && len(g.Header) == 0 {
		t = append(t, "header_with_zero_cells")
	}
	if g.HasHeader && len(g.Header) < n {
		t = append(t, "header_shorter_than_rows")
	}
	if !g.HasHeader {
		t = append(t, "no_header")
	}
	if body == 0 {
		t = append(t, "no_body_rows")
	}
	if n == 0 {
		t = append(t, "no_columns")
	}
	if g.HeaderLast {
		t = append(t, "header_added_last")
	}
	return t
}

func (g *Grid) Nontrivial() bool {
	for _, t := range g.Tags() {
		switch t {
		case "row_with_zero_cells", "ragged_rows", "has_separator", "header_with_zero_cells", "header_shorter_than_rows", "no_header", "header_added_last":
			return true
		}
	}
	return false
}

type ShapeCfg struct {
	MaxRows    int
	MaxCells   int
	Header     []int // offered header cell counts; -1 means no header
	Sep        bool
	HeaderLast bool // also offer adding the header after the rows
	MinCols    int  // shapes with fewer columns are skipped (returns nil)
	ExactRows  bool
}

// ChooseShape lets the chooser pick a shape; texts are left empty ("") to be assigned by the caller.
func ChooseShape(c *Chooser, cfg ShapeCfg) *Grid {
	g := &Grid{}
	h := cfg.Header[c.Choose(len(cfg.Header))]
	if h >= 0 {
		g.HasHeader = true
		g.Header = make([]string, h)
	}
	nrows := cfg.MaxRows
	if !cfg.ExactRows {
		nrows = c.Choose(cfg.MaxRows + 1)
	}
	for i := 0; i < nrows; i++ {
		opts := cfg.MaxCells + 1
		if cfg.Sep {
			opts += 2
		}
		k := c.Choose(opts)
		if k == cfg.MaxCells+1 {
			g.Rows = append(g.Rows, GridRow{Sep: true})
		} else if k == cfg.MaxCells+2 {
			g.Rows = append(g.Rows, GridRow{Cells: []string{}, Literal: true})
		} else {
			g.Rows = append(g.Rows, GridRow{Cells: make([]string, k)})
		}
	}
	if g.HasHeader && cfg.HeaderLast && len(g.Rows) > 0 {
		g.HeaderLast = c.Bool()
	}
	return g
}

// EachCell calls f for every cell slot (header first), allowing assignment.
func (g *Grid) EachCell(f func(kind string, row, col int, p *string)) {
	for j := range g.Header {
		f("header", 0, j, &g.Header[j])
	}
	for i := range g.Rows {
		for j := range g.Rows[i].Cells {
			f("body", i, j, &g.Rows[i].Cells[j])
		}
	}
}

// SerialTexts fills every cell with a unique short text.
func (g *Grid) SerialTexts() {
	n := 0
	g.EachCell(func(kind string, row, col int, p *string) {
		n++
		if kind == "header" {
			*p = fmt.Sprintf("h%d", n)
		} else {
			*p = fmt.Sprintf("c%d", n)
		}
	})
}

// ExpectedRecords: header (if any) then every non-separator row, padded to ncols with "".
func (g *Grid) ExpectedRecords() [][]string {
	n := g.NCols()
	pad := func(cells []string) []string {
		out := make([]string, n)
		copy(out, cells)
		return out
	}
	var recs [][]string
	if g.HasHeader {
		recs = append(recs, pad(g.Header))
	}
	for _, r := range g.Rows {
		if !r.Sep {
			recs = append(recs, pad(r.Cells))
		}
	}
	return recs
}

// WideGrids: tables crossing the 10-column mark (the core pre-allocates 10 column slots) and one crossing the 50-row mark.
func WideGrids() []*Grid {
	mk := func(n int, pfx string) []string {
		out := make([]string, n)
		for i := range out {
			out[i] = fmt.Sprintf("%s%d", pfx, i+1)
		}
		return out
	}
	// a tall table: 56 rows (the core pre-allocates 50 row slots), separators and ragged rows among them
	tall := &Grid{HasHeader: true, Header: []string{"h1", "h2"}}
	for i := 0; i < 56; i++ {
		switch {
		case i%9 == 4:
			tall.Rows = append(tall.Rows, GridRow{Sep: true})
		case i%7 == 3:
			tall.Rows = append(tall.Rows, GridRow{Cells: []string{fmt.Sprintf("r%d", i)}})
		default:
			tall.Rows = append(tall.Rows, GridRow{Cells: []string{fmt.Sprintf("r%d", i), fmt.Sprintf("v%d", i)}})
		}
	}
	return []*Grid{
		tall,
		{HasHeader: true, Header: mk(11, "h"), Rows: []GridRow{{Cells: mk(11, "a")}, {Sep: true}, {Cells: mk(3, "b")}, {Cells: []string{}}}},
		{HasHeader: true, Header: mk(12, "h"), Rows: []GridRow{{Cells: mk(9, "a")}, {Cells: mk(12, "b")}}},
		{Rows: []GridRow{{Cells: mk(2, "a")}, {Cells: mk(13, "b")}, {Cells: mk(10, "c")}}},
		{HasHeader: true, Header: mk(10, "h"), HeaderLast: true, Rows: []GridRow{{Cells: mk(10, "a")}, {Cells: mk(10, "b")}}},
	}
}

// LongTexts: a dense sweep of text lengths around typical buffer thresholds (64, 128, 256, 512, 1024, 4096
// bytes), each length plain, with the hostile character at the start, in the middle, doubled in the middle,
// at the end, and made of hostile characters only; plus multi-byte text and cells of many lines.
func LongTexts(hostile string) []string {
	var out []string
	var lens []int
	for _, r := range [][2]int{{60, 70}, {124, 134}, {250, 262}, {508, 516}, {1020, 1030}, {4094, 4098}} {
		for n := r[0]; n <= r[1]; n++ {
			lens = append(lens, n)
		}
	}
	for _, n := range lens {
		base := strings.Repeat("x", n)
		out = append(out, base, hostile+base[1:], base[:n/2]+hostile+base[n/2+1:], base[:n/2]+hostile+hostile+base[n/2+2:], base[:n-1]+hostile)
		if n <= 140 {
			out = append(out, strings.Repeat(hostile, n))
		}
	}
	for _, n := range []int{33, 64, 129, 600} {
		out = append(out, strings.Repeat("é", n), strings.Repeat("ｗ", n/2)+hostile)
	}
	lines := make([]string, 40)
	for i := range lines {
		lines[i] = fmt.Sprintf("line %d", i+1)
	}
	out = append(out, strings.Join(lines, "\n"), strings.Join(lines[:12], "\n")+"\n")
	// many lines (around 256, 1024 and 4096) and one very long line among short ones (around 64 KiB)
	for _, n := range []int{255, 257, 1023, 1024, 1025, 4097} {
		out = append(out, strings.TrimSuffix(strings.Repeat("l\n", n), "\n"))
	}
	for _, n := range []int{65535, 65536, 70000} {
		out = append(out, "a\n"+strings.Repeat("x", n)+"\nb")
	}
	return out
}
