package main

// C14, family "tables-interleaved": three tables of different width, settings and content rendered in any
// interleaving, each through long-lived wrappers and through the package-level/auto entry points.  Each render
// must give the bytes that table gives when it is the only thing ever rendered: nothing a render of one table
// leaves behind (in the package, in a pool, in a cache keyed too coarsely) may show in another table's output.

import (
	"fmt"
	"strings"

	"go.pennock.tech/tabular"
	"go.pennock.tech/tabular/auto"
	"go.pennock.tech/tabular/csv"
	thtml "go.pennock.tech/tabular/html"
	tjson "go.pennock.tech/tabular/json"
	"go.pennock.tech/tabular/markdown"
	"go.pennock.tech/tabular/properties"
	"go.pennock.tech/tabular/properties/align"
	"go.pennock.tech/tabular/texttable"
)

type c14ilTable struct {
	name  string
	build func(t tabular.Table)
}

func c14ilTables() []c14ilTable {
	return []c14ilTable{
		{"X: 3 columns, right/centre alignment, wide + multi-line + long text, separator, skipable column", func(t tabular.Table) {
			t.AddHeaders("key", "value", "note")
			t.AddRowItems("ｗｉｄｅ", "l1\nline-two", strings.Repeat("long ", 30))
			t.AddSeparator()
			t.AddRowItems("q\",|<&", "", "z")
			t.Column(0).SetProperty(align.PropertyType, align.Center)
			t.Column(2).SetProperty(align.PropertyType, align.Right)
			t.Column(2).SetProperty(properties.Skipable, true)
		}},
		{"Y: 2 plain columns", func(t tabular.Table) {
			t.AddHeaders("a", "b")
			t.AddRowItems("1", "2")
			t.AddRowItems("3", "4")
		}},
		{"Z: no header, one column, a zero-cell row, numbers", func(t tabular.Table) {
			t.AddRowItems(42)
			t.AppendNewRow()
			t.AddRowItems(3.5)
		}},
	}
}

type c14ilFormat struct {
	name string
	wrap func(t tabular.Table) lifeRenderer
	pkg  func(t tabular.Table) (string, error)
}

func c14ilFormats() []c14ilFormat {
	return []c14ilFormat{
		{"csv", func(t tabular.Table) lifeRenderer { return csv.Wrap(t) }, csv.Render},
		{"json", func(t tabular.Table) lifeRenderer { return tjson.Wrap(t) }, tjson.Render},
		{"markdown", func(t tabular.Table) lifeRenderer { return markdown.Wrap(t) }, markdown.Render},
		{"html", func(t tabular.Table) lifeRenderer { return thtml.Wrap(t) }, func(t tabular.Table) (string, error) { return auto.Render(t, "html") }},
		{"text", func(t tabular.Table) lifeRenderer { return texttable.Wrap(t) }, texttable.Render},
		{"text:none", func(t tabular.Table) lifeRenderer {
			w := texttable.Wrap(t)
			w.SetDecorationNamed("none")
			return w
		}, func(t tabular.Table) (string, error) { return auto.Render(t, "none") }},
		{"text:utf8-light", func(t tabular.Table) lifeRenderer {
			w := texttable.Wrap(t)
			w.SetDecorationNamed("utf8-light")
			return w
		}, func(t tabular.Table) (string, error) { return auto.Render(t, "texttable.utf8-light") }},
	}
}

func runC14Interleaved(x *X) {
	tables, formats := c14ilTables(), c14ilFormats()
	depth := x.Pick(3, 4)
	type res struct {
		out string
		err bool
	}
	var refs map[string]res
	x.Explore("tables-interleaved", ExploreOpts{ShardDepth: 2, Bound: fmt.Sprintf("%d tables x %d formats x {long-lived wrapper, package-level/auto function}: all sequences of <=%d renders", len(tables), len(formats), depth)}, func(c *Chooser) {
		if refs == nil {
			// references: each (table, format) rendered once on a fresh table through a fresh wrapper
			refs = map[string]res{}
			for ti, tb := range tables {
				for fi, f := range formats {
					t := tabular.New()
					tb.build(t)
					out, err := f.wrap(t).Render()
					refs[fmt.Sprint(ti, fi)] = res{out, err != nil}
				}
			}
		}
		live := make([]tabular.Table, len(tables))
		wrappers := map[string]lifeRenderer{}
		for i, tb := range tables {
			live[i] = tabular.New()
			tb.build(live[i])
		}
		var ops []string
		for step := 0; step < depth; step++ {
			k := c.Choose(len(tables)*len(formats)*2 + 1)
			if k == 0 {
				break
			}
			k--
			via := k % 2
			fi := (k / 2) % len(formats)
			ti := k / 2 / len(formats)
			name := fmt.Sprintf("%s of table %c via %s", formats[fi].name, "XYZ"[ti], []string{"its long-lived wrapper", "the package-level/auto function"}[via])
			c.Logf("%s", name)
			ops = append(ops, name)
			x.Transition(1)
			var out string
			var err error
			p, val, site := Safe(func() {
				if via == 0 {
					key := fmt.Sprint(ti, fi)
					if wrappers[key] == nil {
						wrappers[key] = formats[fi].wrap(live[ti])
					}
					out, err = wrappers[key].Render()
				} else {
					out, err = formats[fi].pkg(live[ti])
				}
			})
			tags := []string{"tables_interleaved", "format:" + formats[fi].name}
			if step > 0 {
				tags = append(tags, "after_rendering_another_table_or_format")
			}
			if p {
				x.FailSite("C14.no_panic", append(tags, "panic"), site, "%s panicked: %v after %v", name, val, ops)
				return
			}
			want := refs[fmt.Sprint(ti, fi)]
			x.Clause("C14.same_bytes_as_first_render")
			if out != want.out || (err != nil) != want.err {
				x.Fail("C14.same_bytes_as_first_render", tags, "%s (after %v) gives (err %v)\n%s\nbut rendered alone on a fresh identical table it gives (err %v)\n%s", name, ops[:len(ops)-1], err, out, want.err, want.out)
				return
			}
		}
		x.State(fmt.Sprint(ops))
		if len(ops) > 1 {
			x.Nontrivial(fmt.Sprint(ops))
		}
	})
}

// family "re-entrant-writer": while table X is being rendered, its writer renders table Y in the same format (a log
// sink that formats its own status table, a writer that flushes a summary).  Both outputs must be what the tables
// give when rendered alone.
type c14NestWriter struct {
	buf   strings.Builder
	calls int
	at    int // 0: on every call
	inner func() (string, error)
	outs  []string
}

func (w *c14NestWriter) Write(p []byte) (int, error) {
	w.calls++
	if w.at == 0 || w.calls == w.at {
		o, _ := w.inner()
		w.outs = append(w.outs, o)
	}
	return w.buf.Write(p)
}

func runC14Reentrant(x *X) {
	tables, formats := c14ilTables(), c14ilFormats()
	x.Explore("re-entrant-writer", ExploreOpts{ShardDepth: 2, Bound: fmt.Sprintf("%d formats x ordered pairs of 3 tables: the outer table's writer renders the inner table (fresh wrapper, same format) before accepting Write #1 | #2 | every Write", len(formats))}, func(c *Chooser) {
		f := formats[c.Choose(len(formats))]
		to, ti := c.Choose(len(tables)), c.Choose(len(tables))
		at := c.Choose(3)
		mk := func(i int) tabular.Table { t := tabular.New(); tables[i].build(t); return t }
		wantOuter, werrO := f.wrap(mk(to)).Render()
		wantInner, _ := f.wrap(mk(ti)).Render()
		outer, inner := mk(to), mk(ti)
		w := &c14NestWriter{at: []int{1, 2, 0}[at], inner: func() (string, error) { return f.wrap(inner).Render() }}
		c.Logf("%s: table %c rendered to a writer that renders table %c before accepting Write #%d (0 = every)", f.name, "XYZ"[to], "XYZ"[ti], w.at)
		x.Transition(1)
		x.Nontrivial(fmt.Sprint(f.name, to, ti, at))
		var err error
		if p, val, site := Safe(func() { err = f.wrap(outer).RenderTo(w) }); p {
			x.FailSite("C14.no_panic", []string{"re_entrant_writer", "panic", "format:" + f.name}, site, "%s panicked: %v", f.name, val)
			return
		}
		tags := []string{"re_entrant_writer", "format:" + f.name}
		x.Clause("C14.same_bytes_as_first_render")
		if w.buf.String() != wantOuter || (err != nil) != (werrO != nil) {
			x.Fail("C14.same_bytes_as_first_render", tags, "outer table %c rendered as %s while its writer rendered table %c gives (err %v)\n%s\nbut alone it gives (err %v)\n%s", "XYZ"[to], f.name, "XYZ"[ti], err, w.buf.String(), werrO, wantOuter)
			return
		}
		for _, o := range w.outs {
			if o != wantInner {
				x.Fail("C14.same_bytes_as_first_render", append(tags, "inner_render"), "inner table %c rendered from inside the outer render gives\n%s\nbut alone it gives\n%s", "XYZ"[ti], o, wantInner)
				return
			}
		}
	})
}
