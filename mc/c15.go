package main

import (
	"bytes"
	"context"
	"errors"
	"fmt"
	"io"
	"strings"
	"syscall"
	"time"

	"go.pennock.tech/tabular"
	"go.pennock.tech/tabular/csv"
	thtml "go.pennock.tech/tabular/html"
	tjson "go.pennock.tech/tabular/json"
	"go.pennock.tech/tabular/markdown"
	"go.pennock.tech/tabular/texttable"
)

// C15 — a failing writer always surfaces as an error and output stops there.

func init() {
	register(&Check{
		ID:        "C15",
		Level:     "fault_enumeration",
		Technique: "exhaustive fault enumeration at the io.Writer seam: for every renderer and table, every index k of a Write call of the fault-free run x every failure mode (deviation-bounded: 1 and 2 scripted deviations) on the real RenderTo",
		Rule: "10 tables (header/no header, separators, short rows needing padding, zero-cell rows, multi-line cells, zero columns, cells of 600-2000 bytes) x 9 renderers (csv, json, markdown, html, html+row classes, text heavy/ascii/none/custom) x writer kind {plain io.Writer, io.StringWriter too}; the fault-free run gives W = number of Write calls and the reference bytes; " +
			"then every k in 1..W x mode {fail from k on, fail only at k, accept half the bytes and return an error at k, accept half the bytes with a nil error (short write) at k}; plus every pair k1<k2 of single-call failures; family second-render-after-fault: on ONE long-lived wrapper a RenderTo failing at any k1/mode is followed by a second RenderTo (healthy or failing at any k2), which must satisfy the property as well; " +
			"non-trivial = a run in which the injected fault was reached; distinct by (table, renderer, writer kind, k, mode)",
		Assumptions: []string{"the writer is the only fault source", "after a single failed call later calls are accepted (a writer may recover); the property then still demands an error and a prefix up to the failure",
			"a short write without error violates io.Writer's contract; there only 'no panic' and 'accepted bytes are a prefix... up to the short write' are not demanded - the mode is explored for panics only"},
		QuickBudget: 120 * time.Second, ThoroughBudget: 20 * time.Minute,
		Run: runC15,
	})
}

var errInjected = errors.New("injected write failure")

type faultWriter struct {
	calls    int
	accepted bytes.Buffer
	// script: for call number k (1-based) what to do
	mode     int // 0 none, 1 fail from k on, 2 fail only at k, 3 partial+error at k, 4 short write nil error at k, 6 full write + error at k
	k, k2    int // k2: second single failure (0 = none)
	reached  bool
	failedAt int // offset in accepted bytes at the first failure
	after    int // bytes accepted after the first failure
	err      error // the error value reported (nil: errInjected)
}

func (w *faultWriter) e() error {
	if w.err != nil {
		return w.err
	}
	return errInjected
}

// c15ErrKind: when set (family error-kinds), the error value every fault writer of c15Run reports.
var c15ErrKind error
var c15ErrKindName string

type c15NetErr struct {
	msg                string
	temporary, timeout bool
}

func (e *c15NetErr) Error() string   { return e.msg }
func (e *c15NetErr) Temporary() bool { return e.temporary }
func (e *c15NetErr) Timeout() bool   { return e.timeout }

func (w *faultWriter) Write(p []byte) (int, error) {
	w.calls++
	n := w.calls
	fail := func() (int, error) {
		if !w.reached {
			w.reached = true
			w.failedAt = w.accepted.Len()
		}
		return 0, w.e()
	}
	switch {
	case w.mode == 1 && n >= w.k:
		return fail()
	case w.mode == 2 && (n == w.k || n == w.k2):
		return fail()
	case w.mode == 3 && n == w.k:
		h := len(p) / 2
		w.accepted.Write(p[:h])
		if !w.reached {
			w.reached = true
			w.failedAt = w.accepted.Len()
		}
		return h, w.e()
	case w.mode == 6 && n == w.k:
		// every byte is taken AND an error is reported (a writer may do that: n == len(p) with a non-nil error)
		w.accepted.Write(p)
		if !w.reached {
			w.reached = true
			w.failedAt = w.accepted.Len()
		}
		return len(p), w.e()
	case w.mode == 4 && n == w.k:
		h := len(p) / 2
		w.accepted.Write(p[:h])
		w.reached = true
		w.failedAt = w.accepted.Len()
		return h, nil
	}
	if w.reached {
		w.after += len(p)
	}
	w.accepted.Write(p)
	return len(p), nil
}

// stringFaultWriter also implements io.StringWriter (different path through io.WriteString).
type stringFaultWriter struct{ faultWriter }

func (w *stringFaultWriter) WriteString(s string) (int, error) { return w.Write([]byte(s)) }

type c15Renderer struct {
	name string
	to   func(t tabular.Table, w io.Writer) error
}

func c15Renderers() []c15Renderer {
	text := func(set func(tt *texttable.TextTable)) func(t tabular.Table, w io.Writer) error {
		return func(t tabular.Table, w io.Writer) error {
			tt := texttable.Wrap(t)
			set(tt)
			return tt.RenderTo(w)
		}
	}
	return []c15Renderer{
		{"csv", func(t tabular.Table, w io.Writer) error { return csv.Wrap(t).RenderTo(w) }},
		{"json", func(t tabular.Table, w io.Writer) error { return tjson.Wrap(t).RenderTo(w) }},
		{"markdown", func(t tabular.Table, w io.Writer) error { return markdown.Wrap(t).RenderTo(w) }},
		{"html", func(t tabular.Table, w io.Writer) error { return thtml.Wrap(t).RenderTo(w) }},
		{"html+rowclass", func(t tabular.Table, w io.Writer) error {
			return thtml.Wrap(t).SetRowClassGenerator(rowClassGen, nil).RenderTo(w)
		}},
		{"text:utf8-heavy", text(func(tt *texttable.TextTable) {})},
		{"text:ascii-simple", text(func(tt *texttable.TextTable) { tt.SetDecorationNamed("ascii-simple") })},
		{"text:none", text(func(tt *texttable.TextTable) { tt.SetDecorationNamed("none") })},
		{"text:custom", text(func(tt *texttable.TextTable) { tt.SetDecoration(customDecoration()) })},
	}
}

func c15Tables() []c10Table {
	all := c10Tables()
	pick := map[string]bool{"regular 2x2 with header": true, "ragged": true, "zero-cell row": true, "separators first/last/consecutive": true, "multi-line and wide": true,
		"no header": true, "header only": true, "empty table": true, "hostile texts": true}
	var out []c10Table
	for _, t := range all {
		if pick[t.name] {
			out = append(out, t)
		}
	}
	out = append(out, c10Table{"long cells (600 and 2000 bytes) and a long header", func(t tabular.Table) {
		t.AddHeaders("h1", strings.Repeat("H", 700))
		t.AddRowItems(strings.Repeat("x", 600), strings.Repeat("y\"", 1000))
		t.AddRowItems("short", strings.Repeat("é", 300))
	}})
	out = append(out, c10Table{"an entirely empty column (empty header, empty cells): zero-length writes", func(t tabular.Table) {
		t.AddHeaders("a", "", "c")
		t.AddRowItems("1", "", "3")
		t.AddRowItems("4", nil, "6")
	}})
	out = append(out, c10Table{"repeated rows: three identical rows, two identical two-line rows, a row equal to the header", func(t tabular.Table) {
		t.AddHeaders("same", "row")
		t.AddRowItems("same", "row")
		t.AddRowItems("a", "b")
		t.AddRowItems("a", "b")
		t.AddRowItems("a", "b")
		t.AddSeparator()
		t.AddRowItems("l1\nl2", "x")
		t.AddRowItems("l1\nl2", "x")
	}})
	return out
}

func runC15(x *X) {
	tables := c15Tables()
	rends := c15Renderers()
	type ref struct {
		bytes string
		calls int
		err   error
	}
	refs := map[[3]int]ref{}
	for ti, tb := range tables {
		for ri, rd := range rends {
			for wk := 0; wk < 2; wk++ {
				t := tabular.New()
				tb.build(t)
				var fw faultWriter
				var err error
				if wk == 0 {
					err = rd.to(t, &fw)
				} else {
					sw := &stringFaultWriter{}
					err = rd.to(t, sw)
					fw = sw.faultWriter
				}
				refs[[3]int{ti, ri, wk}] = ref{fw.accepted.String(), fw.calls, err}
			}
		}
	}
	c15SecondRender(x)
	modeNames := []string{"", "fail from k on", "fail only at k", "partial write with error at k", "short write without error at k", "fail only at k1 and k2", "all bytes accepted together with an error at k"}
	x.Explore("single-fault", ExploreOpts{ShardDepth: 3, Bound: "every (table, renderer, writer kind) x every Write index k of the fault-free run x 5 failure modes"}, func(c *Chooser) {
		ti, ri, wk := c.Choose(len(tables)), c.Choose(len(rends)), c.Choose(2)
		r := refs[[3]int{ti, ri, wk}]
		if r.calls == 0 {
			c.Choose(1)
			c.Choose(1)
			x.Note("no_write_calls(" + rends[ri].name + ")")
			return
		}
		k := 1 + c.Choose(r.calls)
		mode := []int{1, 2, 3, 4, 6}[c.Choose(5)]
		c15Run(x, c, tables[ti], rends[ri], wk, mode, k, 0, r.bytes, r.err, modeNames)
	})
	// error kinds: what the writer's error value IS must not matter (temporary / timeout / EAGAIN / EOF / short write)
	kinds := []struct {
		name string
		err  error
	}{
		{"net-style error, Temporary() true", &c15NetErr{"temporarily unavailable", true, false}},
		{"net-style error, Timeout() true", &c15NetErr{"i/o timeout", false, true}},
		{"syscall.EAGAIN", syscall.EAGAIN},
		{"syscall.EINTR", syscall.EINTR},
		{"io.EOF", io.EOF},
		{"io.ErrShortWrite", io.ErrShortWrite},
		{"io.ErrClosedPipe wrapped by fmt.Errorf", fmt.Errorf("sink: %w", io.ErrClosedPipe)},
		{"context.DeadlineExceeded", context.DeadlineExceeded},
	}
	x.Explore("error-kinds", ExploreOpts{ShardDepth: 3, Bound: fmt.Sprintf("%d kinds of error value (temporary, timeout, EAGAIN, EINTR, EOF, short write, wrapped, deadline) x 3 tables x every renderer x writer kind x every Write index k x {fail only at k, partial write with error at k, fail from k on}", len(kinds))}, func(c *Chooser) {
		kd := kinds[c.Choose(len(kinds))]
		ti, ri, wk := []int{0, 1, 4}[c.Choose(3)], c.Choose(len(rends)), c.Choose(2)
		r := refs[[3]int{ti, ri, wk}]
		if r.calls == 0 {
			c.Choose(1)
			c.Choose(1)
			x.Note("no_write_calls(" + rends[ri].name + ")")
			return
		}
		k := 1 + c.Choose(r.calls)
		mode := []int{2, 3, 1}[c.Choose(3)]
		c15ErrKind, c15ErrKindName = kd.err, kd.name
		defer func() { c15ErrKind, c15ErrKindName = nil, "" }()
		c15Run(x, c, tables[ti], rends[ri], wk, mode, k, 0, r.bytes, r.err, modeNames)
	})
	// tall tables (more body rows than any plausible batch size): single faults only
	tall := []c10Table{
		{"70 body rows", func(t tabular.Table) {
			t.AddHeaders("n", "v")
			for i := 0; i < 70; i++ {
				t.AddRowItems(i, fmt.Sprintf("v%d", i))
			}
		}},
		{"130 body rows with a separator every 40 rows, three columns", func(t tabular.Table) {
			t.AddHeaders("n", "v", "w")
			for i := 0; i < 130; i++ {
				if i%40 == 39 {
					t.AddSeparator()
				}
				t.AddRowItems(i, fmt.Sprintf("v%d", i), "w\"<")
			}
		}},
	}
	tallRefs := map[[3]int]ref{}
	for ti, tb := range tall {
		for ri, rd := range rends {
			for wk := 0; wk < 2; wk++ {
				t := tabular.New()
				tb.build(t)
				var fw faultWriter
				var err error
				if wk == 0 {
					err = rd.to(t, &fw)
				} else {
					sw := &stringFaultWriter{}
					err = rd.to(t, sw)
					fw = sw.faultWriter
				}
				tallRefs[[3]int{ti, ri, wk}] = ref{fw.accepted.String(), fw.calls, err}
			}
		}
	}
	x.Explore("single-fault-tall-tables", ExploreOpts{ShardDepth: 3, Bound: "2 tall tables (70 and 130 body rows) x every renderer x writer kind x every Write index k of the fault-free run x 5 failure modes"}, func(c *Chooser) {
		ti, ri, wk := c.Choose(len(tall)), c.Choose(len(rends)), c.Choose(2)
		r := tallRefs[[3]int{ti, ri, wk}]
		if r.calls == 0 {
			c.Choose(1)
			c.Choose(1)
			return
		}
		k := 1 + c.Choose(r.calls)
		mode := []int{1, 2, 3, 4, 6}[c.Choose(5)]
		c15Run(x, c, tall[ti], rends[ri], wk, mode, k, 0, r.bytes, r.err, modeNames)
	})
	{
		x.Explore("double-fault", ExploreOpts{ShardDepth: 3, Bound: "every (table, renderer, writer kind) x every pair k1<k2 of single-call failures"}, func(c *Chooser) {
			ti, ri, wk := c.Choose(len(tables)), c.Choose(len(rends)), c.Choose(2)
			r := refs[[3]int{ti, ri, wk}]
			if r.calls < 2 {
				c.Choose(1)
				c.Choose(1)
				return
			}
			k1 := 1 + c.Choose(r.calls-1)
			k2 := k1 + 1 + c.Choose(r.calls-k1)
			c15Run(x, c, tables[ti], rends[ri], wk, 2, k1, k2, r.bytes, r.err, modeNames)
		})
	}
}

// c15LongLived: wrappers that live across several RenderTo calls.
func c15LongLived() []struct {
	name string
	mk   func(t tabular.Table) c14Renderer
} {
	return []struct {
		name string
		mk   func(t tabular.Table) c14Renderer
	}{
		{"csv", func(t tabular.Table) c14Renderer { return csv.Wrap(t) }},
		{"json", func(t tabular.Table) c14Renderer { return tjson.Wrap(t) }},
		{"markdown", func(t tabular.Table) c14Renderer { return markdown.Wrap(t) }},
		{"html", func(t tabular.Table) c14Renderer { return thtml.Wrap(t) }},
		{"html+rowclass", func(t tabular.Table) c14Renderer { return thtml.Wrap(t).SetRowClassGenerator(rowClassGen, nil) }},
		{"text", func(t tabular.Table) c14Renderer { return texttable.Wrap(t) }},
		{"text:none", func(t tabular.Table) c14Renderer { tt := texttable.Wrap(t); tt.SetDecorationNamed("none"); return tt }},
	}
}

// c15SecondRender: on ONE long-lived wrapper, a RenderTo that fails at call k1 is followed by a second RenderTo
// (clean, or failing at k2): the property must hold for the second call too.
func c15SecondRender(x *X) {
	tables := c15Tables()
	mks := c15LongLived()
	type ref struct {
		bytes string
		calls int
		err   error
	}
	refs := map[[2]int]ref{}
	for ti, tb := range tables {
		for ri, m := range mks {
			t := tabular.New()
			tb.build(t)
			fw := &faultWriter{}
			err := m.mk(t).RenderTo(fw)
			refs[[2]int{ti, ri}] = ref{fw.accepted.String(), fw.calls, err}
		}
	}
	x.Explore("second-render-after-fault", ExploreOpts{ShardDepth: 3, Bound: "9 tables x 7 long-lived wrappers x first fault (every k1 x 3 modes) x second RenderTo clean or failing (every k2, fail from k2 on)"}, func(c *Chooser) {
		ti, ri := c.Choose(len(tables)), c.Choose(len(mks))
		r := refs[[2]int{ti, ri}]
		if r.calls == 0 || r.err != nil {
			c.Choose(1)
			return
		}
		k1 := 1 + c.Choose(r.calls)
		mode1 := 1 + c.Choose(3)
		k2 := c.Choose(r.calls + 1) // 0 = clean writer
		t := tabular.New()
		tables[ti].build(t)
		w := mks[ri].mk(t)
		c.Logf("table %q, ONE %s wrapper: RenderTo(fail at call %d, mode %d); RenderTo(second writer, fail from call %d on; 0 = never)", tables[ti].name, mks[ri].name, k1, mode1, k2)
		x.Transition(2)
		tags := []string{"renderer:" + mks[ri].name, "second_render_on_same_wrapper_after_fault"}
		fw2 := &faultWriter{}
		if k2 > 0 {
			fw2 = &faultWriter{mode: 1, k: k2}
		}
		var err2 error
		if p, val, site := Safe(func() { w.RenderTo(&faultWriter{mode: mode1, k: k1}); err2 = w.RenderTo(fw2) }); p {
			x.FailSite("C15.no_panic", append(tags, "panic"), site, "%s panicked: %v", mks[ri].name, val)
			return
		}
		x.Nontrivial(fmt.Sprint(ti, ri, k1, mode1, k2))
		x.Clause("C15.error_returned")
		if fw2.reached && err2 == nil {
			x.Fail("C15.error_returned", tags, "second RenderTo returned nil although its writer failed at call %d", k2)
			return
		}
		x.Clause("C15.accepted_is_prefix")
		if acc := fw2.accepted.String(); !strings.HasPrefix(r.bytes, acc) {
			x.Fail("C15.accepted_is_prefix", tags, "second RenderTo on the same %s wrapper (after a first one that failed at call %d): accepted bytes are not a prefix of the fault-free output\naccepted: %q\nfault-free: %q", mks[ri].name, k1, acc, r.bytes)
			return
		}
		if k2 == 0 && (err2 != nil || fw2.accepted.String() != r.bytes) {
			x.Fail("C15.accepted_is_prefix", tags, "second RenderTo with a healthy writer on the same %s wrapper gives (err %v)\n%q\nwant\n%q", mks[ri].name, err2, fw2.accepted.String(), r.bytes)
		}
	})
}

func c15Run(x *X, c *Chooser, tb c10Table, rd c15Renderer, wk, mode, k, k2 int, refBytes string, refErr error, modeNames []string) {
	t := tabular.New()
	tb.build(t)
	mn := modeNames[mode]
	if k2 > 0 {
		mn = modeNames[5]
	}
	kind := []string{"io.Writer", "io.Writer+io.StringWriter"}[wk]
	c.Logf("table %q, renderer %s, writer %s, %s (k=%d k2=%d)", tb.name, rd.name, kind, mn, k, k2)
	x.Transition(1)
	var fw *faultWriter
	var w io.Writer
	if wk == 0 {
		fw = &faultWriter{mode: mode, k: k, k2: k2}
		w = fw
	} else {
		sw := &stringFaultWriter{faultWriter{mode: mode, k: k, k2: k2}}
		fw = &sw.faultWriter
		w = sw
	}
	tags := []string{"renderer:" + rd.name, "mode:" + mn, "writer:" + kind}
	if c15ErrKind != nil {
		fw.err = c15ErrKind
		tags = append(tags, "error_kind:"+c15ErrKindName)
		c.Logf("the writer's error is %s", c15ErrKindName)
	}
	var err error
	if p, val, site := Safe(func() { err = rd.to(t, w) }); p {
		x.FailSite("C15.no_panic", append(tags, "panic"), site, "%s RenderTo panicked with a failing writer: %v; table %q, %s at call %d", rd.name, val, tb.name, mn, k)
		return
	}
	if !fw.reached {
		x.Note("fault_not_reached")
		return
	}
	x.Nontrivial(fmt.Sprint(tb.name, rd.name, wk, mode, k, k2))
	x.Outcome(fmt.Sprint(rd.name, mode, err != nil))
	if mode == 4 {
		// a short write with a nil error breaks io.Writer's contract; explored for panics only
		x.Clause("C15.no_panic_on_short_write")
		return
	}
	if refErr != nil {
		// the renderer refuses this table anyway
		x.Clause("C15.error_returned")
		if err == nil {
			x.Fail("C15.error_returned", tags, "fault-free run fails (%v) but the faulty run returned nil", refErr)
		}
		return
	}
	x.Clause("C15.error_returned")
	if err == nil {
		tg := tags
		if rd.name == "markdown" {
			tg = append(tg, "markdown_row_opener_write")
		}
		x.Fail("C15.error_returned", tg, "%s RenderTo returned nil although the writer failed (%s, call %d of table %q); accepted %q", rd.name, mn, k, tb.name, fw.accepted.String())
		return
	}
	x.Clause("C15.accepted_is_prefix")
	acc := fw.accepted.String()
	if !strings.HasPrefix(refBytes, acc) {
		tg := tags
		if rd.name == "markdown" {
			tg = append(tg, "markdown_row_opener_write")
		}
		x.Fail("C15.accepted_is_prefix", tg, "bytes accepted by the writer are not a prefix of the fault-free output (%s, call %d, table %q)\naccepted: %q\nfault-free: %q", mn, k, tb.name, acc, refBytes)
		return
	}
}
