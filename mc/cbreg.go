package main

import "go.pennock.tech/tabular"

// registerCB calls RegisterPropertyCallback with the time/target constants selected by index
// (when: 0 ADD, 1 RENDER_PRECELL, 2 RENDER, 3 RENDER_POSTCELL; target: 0 ITSELF, 1 CELL, 2 ROW).
// The constant types are unexported, hence the explicit table.
func registerCB(t tabular.Table, po tabular.PropertyOwner, when, target int, cb tabular.PropertyCallback) error {
	switch when*3 + target {
	case 0:
		return t.RegisterPropertyCallback(po, tabular.CB_AT_ADD, tabular.CB_ON_ITSELF, cb)
	case 1:
		return t.RegisterPropertyCallback(po, tabular.CB_AT_ADD, tabular.CB_ON_CELL, cb)
	case 2:
		return t.RegisterPropertyCallback(po, tabular.CB_AT_ADD, tabular.CB_ON_ROW, cb)
	case 3:
		return t.RegisterPropertyCallback(po, tabular.CB_AT_RENDER_PRECELL, tabular.CB_ON_ITSELF, cb)
	case 4:
		return t.RegisterPropertyCallback(po, tabular.CB_AT_RENDER_PRECELL, tabular.CB_ON_CELL, cb)
	case 5:
		return t.RegisterPropertyCallback(po, tabular.CB_AT_RENDER_PRECELL, tabular.CB_ON_ROW, cb)
	case 6:
		return t.RegisterPropertyCallback(po, tabular.CB_AT_RENDER, tabular.CB_ON_ITSELF, cb)
	case 7:
		return t.RegisterPropertyCallback(po, tabular.CB_AT_RENDER, tabular.CB_ON_CELL, cb)
	case 8:
		return t.RegisterPropertyCallback(po, tabular.CB_AT_RENDER, tabular.CB_ON_ROW, cb)
	case 9:
		return t.RegisterPropertyCallback(po, tabular.CB_AT_RENDER_POSTCELL, tabular.CB_ON_ITSELF, cb)
	case 10:
		return t.RegisterPropertyCallback(po, tabular.CB_AT_RENDER_POSTCELL, tabular.CB_ON_CELL, cb)
	case 11:
		return t.RegisterPropertyCallback(po, tabular.CB_AT_RENDER_POSTCELL, tabular.CB_ON_ROW, cb)
	}
	panic("harness: bad callback time/target")
}

var cbTimeNames = []string{"ADD", "RENDER_PRECELL", "RENDER", "RENDER_POSTCELL"}
var cbTargetNames = []string{"ITSELF", "CELL", "ROW"}
