package main

// Engine: stateless exhaustive exploration of choice trees run directly against
// the real code.  A check body is a deterministic function of the choices it
// asks for through Chooser.Choose; the explorer enumerates every choice
// sequence depth-first (odometer style), shards the tree over worker processes
// on a hash of the first choices, and records coverage statistics.

import (
	"encoding/json"
	"fmt"
	"hash/fnv"
	"os"
	"os/exec"
	"path/filepath"
	"runtime"
	"sort"
	"strings"
	"time"
)

// ---------------------------------------------------------------------------
// Chooser

type Chooser struct {
	path    []int
	lim     []int
	pos     int
	tracing bool
	trace   []string
	// sharding
	shardDepth int
	shard      int
	nshards    int
	fixed      bool // replay: never extend beyond path with anything but 0; divergence is an error
}

type skipShard struct{}
type abortRun struct{}
type stopAll struct{}

// Choose returns a value in [0,n).  Past the recorded prefix it returns 0.
func (c *Chooser) Choose(n int) int {
	if n <= 0 {
		panic(fmt.Sprintf("harness: Choose(%d)", n))
	}
	var v int
	if c.pos < len(c.path) {
		v = c.path[c.pos]
		if v >= n {
			panic(fmt.Sprintf("harness: replay divergence at point %d: recorded choice %d but only %d alternatives", c.pos, v, n))
		}
	} else {
		c.path = append(c.path, 0)
		c.lim = append(c.lim, 0)
	}
	c.lim[c.pos] = n
	c.pos++
	if c.nshards > 1 && c.pos == c.shardDepth {
		if int(hashInts(c.path[:c.pos])%uint64(c.nshards)) != c.shard {
			panic(skipShard{})
		}
	}
	return v
}

// Bool is Choose(2)==1.
func (c *Chooser) Bool() bool { return c.Choose(2) == 1 }

// Logf appends a human-readable step to the trace (only when tracing).
func (c *Chooser) Logf(format string, a ...interface{}) {
	if c.tracing {
		c.trace = append(c.trace, fmt.Sprintf(format, a...))
	}
}

func (c *Chooser) Tracing() bool { return c.tracing }

func hashInts(a []int) uint64 {
	h := fnv.New64a()
	var b [4]byte
	for _, v := range a {
		b[0], b[1], b[2], b[3] = byte(v), byte(v>>8), byte(v>>16), byte(v>>24)
		h.Write(b[:])
	}
	// final avalanche so that small inputs spread over shards
	x := h.Sum64()
	x ^= x >> 33
	x *= 0xff51afd7ed558ccd
	x ^= x >> 33
	return x
}

func hashStr(s string) uint64 {
	h := fnv.New64a()
	h.Write([]byte(s))
	return h.Sum64()
}

// ---------------------------------------------------------------------------
// Violations and known findings

type Violation struct {
	Property string   `json:"property"`
	Family   string   `json:"family"`
	Tier     string   `json:"tier"`
	Clause   string   `json:"clause"`
	Tags     []string `json:"tags"`
	Site     string   `json:"site,omitempty"`
	Path     []int    `json:"path"`
	Trace    []string `json:"trace"`
	Detail   string   `json:"detail"`
	File     string   `json:"file,omitempty"`
	// Window: when the violation only shows after earlier executions of the same process (state kept by
	// the code under test between unrelated uses), the choice lists of those executions, in order; Path is the last one.
	Window [][]int `json:"window,omitempty"`
}

type KnownFinding struct {
	ID       string `json:"id"`
	Property string `json:"property"`
	Clause   string `json:"clause"`
	Trigger  string `json:"trigger"`
	Site     string `json:"site,omitempty"`
	Status   string `json:"status"` // known | fixed
	Commit   string `json:"commit,omitempty"`
	What     string `json:"what"`
}

func loadKnown(path string) []KnownFinding {
	b, err := os.ReadFile(path)
	if err != nil {
		return nil
	}
	var f struct {
		Findings []KnownFinding `json:"findings"`
	}
	if err := json.Unmarshal(b, &f); err != nil {
		fmt.Fprintf(os.Stderr, "harness: cannot parse %s: %v\n", path, err)
		os.Exit(2)
	}
	return f.Findings
}

// ---------------------------------------------------------------------------
// Per-worker context

type FamilyStat struct {
	Runs       int64  `json:"runs"`
	MaxDepth   int    `json:"max_depth"`
	Exhaustive bool   `json:"exhaustive"`
	Cap        string `json:"cap,omitempty"`
	Bound      string `json:"bound,omitempty"`
}

type X struct {
	Prop    string
	Tier    string
	Shard   int
	NShards int
	Seed    int64

	deadline time.Time
	quiet    bool

	Evaluations int64
	cnt         []int64 // named counters ("c:<clause>", "n:<note>", "t" transitions); snapshotted per run
	cntIdx      map[string]int
	cntNames    []string
	snap        []int64
	states      map[uint64]struct{}
	outcomes    map[uint64]struct{}
	nontrivial  map[uint64]struct{}
	Families    map[string]*FamilyStat
	Samples     []interface{}

	Violations []Violation
	KnownHits  map[string]int64
	known      []KnownFinding

	recent    [][]int // choice lists of the most recent executions of the current family (oldest first)
	pending   *Violation
	replay    *Violation
	replayHit []Violation
	curFamily string
	curC      *Chooser
	outDir    string
	maxViol   int
}

func newX(prop, tier string, shard, nshards int) *X {
	return &X{Prop: prop, Tier: tier, Shard: shard, NShards: nshards,
		states: map[uint64]struct{}{}, outcomes: map[uint64]struct{}{}, nontrivial: map[uint64]struct{}{},
		cntIdx: map[string]int{}, Families: map[string]*FamilyStat{}, KnownHits: map[string]int64{}, maxViol: 1}
}

func (x *X) Thorough() bool { return x.Tier == "thorough" }

// Pick returns q for quick, t for thorough.
func (x *X) Pick(q, t int) int {
	if x.Thorough() {
		return t
	}
	return q
}

func (x *X) add(key string, n int64) {
	if x.quiet {
		return
	}
	i, ok := x.cntIdx[key]
	if !ok {
		i = len(x.cnt)
		x.cntIdx[key] = i
		x.cntNames = append(x.cntNames, key)
		x.cnt = append(x.cnt, 0)
	}
	x.cnt[i] += n
}
func (x *X) Clause(name string)         { x.add("c:"+name, 1) }
func (x *X) ClauseN(name string, n int) { x.add("c:"+name, int64(n)) }
func (x *X) Note(name string)           { x.add("n:"+name, 1) }
func (x *X) Transition(n int)           { x.add("t", int64(n)) }

func (x *X) counters(prefix string) map[string]int64 {
	m := map[string]int64{}
	for i, k := range x.cntNames {
		if strings.HasPrefix(k, prefix) {
			m[k[len(prefix):]] = x.cnt[i]
		}
	}
	return m
}
func (x *X) State(key string) {
	if !x.quiet {
		x.states[hashStr(key)] = struct{}{}
	}
}
func (x *X) Outcome(key string) {
	if !x.quiet {
		x.outcomes[hashStr(key)] = struct{}{}
	}
}

// Nontrivial records a distinct non-trivial case (by the check's stated rule).
func (x *X) Nontrivial(key string) {
	if !x.quiet {
		x.nontrivial[hashStr(key)] = struct{}{}
	}
}

// Fail reports that clause failed on the current execution.  It returns true
// when the failure matches a listed known finding (the body may then carry on);
// otherwise it aborts the current run (does not return).
func (x *X) Fail(clause string, tags []string, format string, a ...interface{}) bool {
	return x.FailSite(clause, tags, "", format, a...)
}

func (x *X) FailSite(clause string, tags []string, site string, format string, a ...interface{}) bool {
	detail := fmt.Sprintf(format, a...)
	if x.replay == nil {
		for _, k := range x.known {
			if k.Status != "known" || k.Property != x.Prop || k.Clause != clause {
				continue
			}
			if k.Site != "" && k.Site != site {
				continue
			}
			for _, t := range tags {
				if t == k.Trigger {
					if !x.quiet {
						x.KnownHits[k.ID]++
					}
					return true
				}
			}
		}
	}
	v := &Violation{Property: x.Prop, Family: x.curFamily, Tier: x.Tier, Clause: clause, Tags: tags, Site: site, Detail: detail}
	x.pending = v
	panic(abortRun{})
}

// familyCap: see VERIF_FAMILY_CAP (never set by the registered commands)
var familyCap = func() int {
	n := 0
	fmt.Sscan(os.Getenv("VERIF_FAMILY_CAP"), &n)
	return n
}()

type ExploreOpts struct {
	ShardDepth int    // number of leading choice points hashed for sharding (default 1)
	Bound      string // description of the bound explored
	// Cold: the family concerns process-start state (lazy initialisation): each worker runs the body
	// exactly once, as early as the check calls it, with the first choice fixed to its shard number;
	// a violation cannot be reproduced in the same process, so it is not re-confirmed there (the
	// replay, in a fresh process, re-runs it cold).
	Cold bool
}

// Explore enumerates every choice sequence of body.
func (x *X) Explore(family string, opts ExploreOpts, body func(c *Chooser)) {
	if x.replay != nil {
		if x.replay.Family != family {
			return
		}
		x.curFamily = family
		n := 3
		if opts.Cold || len(x.replay.Window) > 0 {
			n = 1
		}
		// a window replay first re-runs the earlier executions of the process, quietly
		for wi := 0; wi+1 < len(x.replay.Window); wi++ {
			wc := &Chooser{path: append([]int{}, x.replay.Window[wi]...), lim: make([]int, len(x.replay.Window[wi])), fixed: true}
			x.quiet = true
			x.runOnce(wc, body)
			x.quiet = false
		}
		for i := 0; i < n; i++ {
			c := &Chooser{path: append([]int{}, x.replay.Path...), lim: make([]int, len(x.replay.Path)), tracing: true, fixed: true}
			v, _ := x.runOnce(c, body)
			if v != nil {
				v.Path = c.path[:c.pos]
				v.Trace = c.trace
				x.replayHit = append(x.replayHit, *v)
			} else {
				x.replayHit = append(x.replayHit, Violation{})
			}
		}
		return
	}
	if opts.ShardDepth == 0 {
		opts.ShardDepth = 1
	}
	x.curFamily = family
	x.recent = nil
	fs := x.Families[family]
	if fs == nil {
		fs = &FamilyStat{Exhaustive: true, Bound: opts.Bound}
		x.Families[family] = fs
	}
	if opts.Cold {
		c := &Chooser{path: []int{x.Shard}, lim: []int{0}, tracing: true}
		v, _ := x.runOnce(c, body)
		fs.Runs++
		x.Evaluations++
		if c.pos > fs.MaxDepth {
			fs.MaxDepth = c.pos
		}
		if v != nil {
			v.Path = append([]int{}, c.path[:c.pos]...)
			v.Trace = c.trace
			if x.outDir != "" {
				os.MkdirAll(x.outDir, 0o755)
				name := filepath.Join(x.outDir, fmt.Sprintf("%s-%s-s%d-%d.replay.json", x.Prop, sanitize(family), x.Shard, len(x.Violations)+1))
				v.File = name
				b, _ := json.MarshalIndent(v, "", " ")
				os.WriteFile(name, b, 0o644)
			}
			x.Violations = append(x.Violations, *v)
			fs.Exhaustive = false
			fs.Cap = "stopped after violations"
			panic(stopAll{})
		} else if len(x.Samples) < 64 {
			x.Samples = append(x.Samples, map[string]interface{}{"family": family, "execution": fs.Runs, "choices": append([]int{}, c.path[:c.pos]...), "steps": c.trace})
		}
		return
	}
	var path []int
	var lim []int
	sampleAt := int64(1)
	for {
		if !x.deadline.IsZero() && fs.Runs&0x3f == 0 && time.Now().After(x.deadline) {
			fs.Exhaustive = false
			fs.Cap = "wall-clock deadline reached after " + fmt.Sprint(fs.Runs) + " executions of this shard"
			return
		}
		c := &Chooser{path: path, lim: lim, shardDepth: opts.ShardDepth, shard: x.Shard, nshards: x.NShards}
		if fs.Runs+1 == sampleAt && len(x.Samples) < 64 {
			c.tracing = true
		}
		x.snap = append(x.snap[:0], x.cnt...)
		v, skipped := x.runOnce(c, body)
		if !skipped && c.pos < opts.ShardDepth && x.NShards > 1 && int(hashInts(c.path[:c.pos])%uint64(x.NShards)) != x.Shard {
			// an execution shorter than the shard depth belongs to exactly one shard: roll back its counters
			copy(x.cnt, x.snap)
			for i := len(x.snap); i < len(x.cnt); i++ {
				x.cnt[i] = 0
			}
			skipped, v = true, nil
		}
		if !skipped {
			fs.Runs++
			x.Evaluations++
			if c.pos > fs.MaxDepth {
				fs.MaxDepth = c.pos
			}
			if len(x.recent) >= 200 {
				x.recent = x.recent[1:]
			}
			x.recent = append(x.recent, append([]int{}, c.path[:c.pos]...))
			if c.tracing && v == nil {
				if nfam(x.Samples, family) < 6 {
					x.Samples = append(x.Samples, map[string]interface{}{"family": family, "execution": fs.Runs, "choices": append([]int{}, c.path[:c.pos]...), "steps": c.trace})
				}
				sampleAt = sampleAt*4 + 1
			} else if c.tracing {
				sampleAt++
			}
		}
		if v != nil {
			x.confirmAndRecord(v, c, body)
			if len(x.Violations) >= x.maxViol {
				fs.Exhaustive = false
				fs.Cap = "stopped after violations"
				panic(stopAll{})
			}
		}
		if familyCap > 0 && fs.Runs >= int64(familyCap) {
			// experiments only (VERIF_FAMILY_CAP): smoke-test every family of a tier for a bounded number of executions
			fs.Exhaustive = false
			fs.Cap = fmt.Sprintf("experiment cap of %d executions per worker", familyCap)
			return
		}
		// advance odometer
		path, lim = c.path[:c.pos], c.lim[:c.pos]
		i := len(path) - 1
		for i >= 0 && path[i]+1 >= lim[i] {
			i--
		}
		if i < 0 {
			return
		}
		path = path[:i+1]
		lim = lim[:i+1]
		path[i]++
	}
}

func nfam(samples []interface{}, family string) int {
	n := 0
	for _, s := range samples {
		if m, ok := s.(map[string]interface{}); ok && m["family"] == family {
			n++
		}
	}
	return n
}

// runOnce runs body with c; returns the violation raised (nil if none) and
// whether the run was skipped for belonging to another shard.
func (x *X) runOnce(c *Chooser, body func(c *Chooser)) (v *Violation, skipped bool) {
	x.pending = nil
	x.curC = c
	defer func() {
		if r := recover(); r != nil {
			switch r.(type) {
			case skipShard:
				skipped = true
			case abortRun:
				v = x.pending
			case stopAll:
				panic(r)
			default:
				s := fmt.Sprint(r)
				if strings.HasPrefix(s, "harness:") {
					fmt.Fprintf(os.Stderr, "%s\npath=%v\n%s\n", s, c.path[:c.pos], stackString())
					os.Exit(2)
				}
				site := repoSite()
				v = &Violation{Property: x.Prop, Family: x.curFamily, Tier: x.Tier, Clause: x.Prop + ".uncaught_panic",
					Tags: []string{"panic"}, Site: site, Detail: fmt.Sprintf("panic: %v at %s\n%s", r, site, stackString())}
			}
		}
	}()
	body(c)
	return nil, false
}

func (x *X) confirmAndRecord(v *Violation, c *Chooser, body func(c *Chooser)) {
	path := append([]int{}, c.path[:c.pos]...)
	// determinism: the same choice list must fail the same way, twice more
	var trace []string
	for i := 0; i < 2; i++ {
		rc := &Chooser{path: append([]int{}, path...), lim: make([]int, len(path)), tracing: true, fixed: true}
		q := x.quiet
		x.quiet = true
		v2, _ := x.runOnce(rc, body)
		x.quiet = q
		if v2 == nil || v2.Clause != v.Clause {
			got := "no violation"
			if v2 != nil {
				got = v2.Clause + ": " + v2.Detail
			}
			// Not reproducible on its own.  Either the harness is nondeterministic (an error), or the code under test
			// carries state from earlier, unrelated executions of this process.  Decide by replaying the recent
			// executions followed by this one in a FRESH process, twice.
			if x.windowReproduces(v, path) {
				v.Path = path
				v.Window = append([][]int{}, x.recent...)
				v.Tags = append(v.Tags, "depends_on_earlier_unrelated_use_in_the_same_process")
				v.Detail = "[only after the " + fmt.Sprint(len(v.Window)-1) + " preceding executions of this process; reproduced twice in fresh processes] " + v.Detail
				x.writeViolation(v)
				return
			}
			// Neither.  Last possibility: the code under test is itself nondeterministic (output depending on map
			// iteration order, on goroutine timing, on addresses).  Repeat the same choices 30 more times: if the same
			// clause fails again at least once, the property is violated with that frequency and it is reported as such
			// (the replay file then reproduces it only with that probability).
			again := 0
			const tries = 30
			for k := 0; k < tries; k++ {
				rc := &Chooser{path: append([]int{}, path...), lim: make([]int, len(path)), tracing: true, fixed: true}
				x.quiet = true
				v3, _ := x.runOnce(rc, body)
				x.quiet = q
				if v3 != nil && v3.Clause == v.Clause {
					again++
					trace = rc.trace
				}
			}
			if again > 0 {
				v.Path = path
				v.Trace = trace
				v.Tags = append(v.Tags, "nondeterministic_under_identical_choices")
				v.Detail = fmt.Sprintf("[NOT deterministic: the same choices failed this clause in %d of %d further repetitions in this process] ", again, tries) + v.Detail
				x.writeViolation(v)
				return
			}
			// It happened once and cannot be made to happen again.  What was observed is still a fact about the code
			// under test (the harness itself has no clocks, no randomness and no goroutines of its own on this path):
			// typically state keyed by addresses, or dependent on garbage collection.  Report it as observed, with
			// everything the one observation gave; the replay file documents it but cannot be expected to reproduce it.
			fmt.Fprintf(os.Stderr, "harness: not reproducible: %s path=%v first=%s replay=%s\n", x.Prop, path, v.Clause, got)
			v.Path = path
			v.Window = append([][]int{}, x.recent...)
			v.Tags = append(v.Tags, "observed_once_not_reproducible")
			v.Detail = fmt.Sprintf("[OBSERVED ONCE: not reproduced by 2 re-runs of the same choices, by replaying the %d preceding executions in fresh processes, or by %d further repetitions - behaviour differs between identical runs (addresses, garbage collection, goroutine timing)] ", len(x.recent), tries) + v.Detail
			x.writeViolation(v)
			return
		}
		trace = rc.trace
	}
	v.Path = path
	v.Trace = trace
	x.writeViolation(v)
}

func (x *X) writeViolation(v *Violation) {
	if x.outDir != "" {
		os.MkdirAll(x.outDir, 0o755)
		name := filepath.Join(x.outDir, fmt.Sprintf("%s-%s-s%d-%d.replay.json", x.Prop, sanitize(x.curFamily), x.Shard, len(x.Violations)+1))
		v.File = name
		b, _ := json.MarshalIndent(v, "", " ")
		os.WriteFile(name, b, 0o644)
	}
	x.Violations = append(x.Violations, *v)
}

// windowReproduces replays the recent executions of this family followed by path in a fresh process (twice)
// and reports whether the last one fails with the same clause both times.
func (x *X) windowReproduces(v *Violation, path []int) bool {
	w := Violation{Property: x.Prop, Family: x.curFamily, Tier: x.Tier, Clause: v.Clause, Path: path, Window: x.recent}
	dir := x.outDir
	if dir == "" {
		dir = os.TempDir()
	}
	os.MkdirAll(dir, 0o755)
	f := filepath.Join(dir, fmt.Sprintf("window-s%d-%d.json", x.Shard, os.Getpid()))
	b, _ := json.Marshal(w)
	if os.WriteFile(f, b, 0o644) != nil {
		return false
	}
	defer os.Remove(f)
	exe, err := os.Executable()
	if err != nil {
		return false
	}
	for i := 0; i < 2; i++ {
		cmd := exec.Command(exe, "replay", f)
		cmd.Env = os.Environ()
		out, _ := cmd.CombinedOutput()
		if !strings.Contains(string(out), "clause="+v.Clause+" ") {
			return false
		}
	}
	return true
}

func sanitize(s string) string {
	return strings.Map(func(r rune) rune {
		if r >= 'a' && r <= 'z' || r >= 'A' && r <= 'Z' || r >= '0' && r <= '9' || r == '-' || r == '_' {
			return r
		}
		return '_'
	}, s)
}

func stackString() string {
	buf := make([]byte, 16<<10)
	n := runtime.Stack(buf, false)
	return string(buf[:n])
}

// repoSite returns the innermost function of the code under test found on the
// current (panicking) stack.
func repoSite() string {
	pcs := make([]uintptr, 64)
	n := runtime.Callers(2, pcs)
	frames := runtime.CallersFrames(pcs[:n])
	for {
		f, more := frames.Next()
		if strings.HasPrefix(f.Function, "go.pennock.tech/tabular") {
			fn := strings.TrimPrefix(f.Function, "go.pennock.tech/")
			return fn
		}
		if !more {
			break
		}
	}
	return ""
}

// Safe runs f and reports a panic raised by it (with the innermost site in the
// code under test) instead of propagating it.  Harness control panics pass through.
func Safe(f func()) (panicked bool, val interface{}, site string) {
	defer func() {
		if r := recover(); r != nil {
			switch r.(type) {
			case skipShard, abortRun, stopAll:
				panic(r)
			}
			if s, ok := r.(string); ok && strings.HasPrefix(s, "harness:") {
				panic(r)
			}
			panicked, val, site = true, r, repoSite()
		}
	}()
	f()
	return
}

// ---------------------------------------------------------------------------
// worker result

type WorkerResult struct {
	Shard       int                    `json:"shard"`
	Evaluations int64                  `json:"evaluations"`
	Transitions int64                  `json:"transitions"`
	States      []uint64               `json:"states"`
	Outcomes    []uint64               `json:"outcomes"`
	Nontrivial  []uint64               `json:"nontrivial"`
	Clauses     map[string]int64       `json:"clauses"`
	Notes       map[string]int64       `json:"notes"`
	Families    map[string]*FamilyStat `json:"families"`
	Samples     []interface{}          `json:"samples"`
	Violations  []Violation            `json:"violations"`
	KnownHits   map[string]int64       `json:"known_hits"`
	WallS       float64                `json:"wall_s"`
}

func keys(m map[uint64]struct{}) []uint64 {
	out := make([]uint64, 0, len(m))
	for k := range m {
		out = append(out, k)
	}
	sort.Slice(out, func(i, j int) bool { return out[i] < out[j] })
	return out
}

func (x *X) result(wall float64) *WorkerResult {
	return &WorkerResult{Shard: x.Shard, Evaluations: x.Evaluations, Transitions: x.counters("t")[""],
		States: keys(x.states), Outcomes: keys(x.outcomes), Nontrivial: keys(x.nontrivial),
		Clauses: x.counters("c:"), Notes: x.counters("n:"), Families: x.Families, Samples: x.Samples, Violations: x.Violations,
		KnownHits: x.KnownHits, WallS: wall}
}
