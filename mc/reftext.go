package main

// Reference text-table renderer: a direct transcription of the statements of C03/C04.

import (
	"fmt"
	"strings"

	"go.pennock.tech/tabular"
	"go.pennock.tech/tabular/length"
	"go.pennock.tech/tabular/properties/align"
	"go.pennock.tech/tabular/texttable"
	"go.pennock.tech/tabular/texttable/decoration"
)

type TCell struct {
	Text  string
	DeclW *int
	DeclH *int
}

type TRow struct {
	Sep   bool
	Cells []TCell
	// Literal: no cells, attached as the zero value &tabular.Row{}
	Literal bool
}

type TGrid struct {
	HasHeader bool
	Header    []TCell
	Rows      []TRow
	Aligns    []interface{} // [0] = column-0 default, [i] = column i; nil = unset
}

func (c TCell) Item() interface{} {
	if c.DeclW == nil && c.DeclH == nil {
		return c.Text
	}
	mask := mS
	f := ItemF{S: c.Text}
	if c.DeclW != nil {
		mask |= mW
		f.W = *c.DeclW
	}
	if c.DeclH != nil {
		mask |= mH
		f.H = *c.DeclH
	}
	it, _ := mkItem(mask, false, f)
	return it
}

func (c TCell) String() string {
	s := fmt.Sprintf("%q", c.Text)
	if c.DeclW != nil {
		s += fmt.Sprintf("[W=%d]", *c.DeclW)
	}
	if c.DeclH != nil {
		s += fmt.Sprintf("[H=%d]", *c.DeclH)
	}
	return s
}

func (c TCell) lines() []string {
	if c.Text == "" {
		return nil
	}
	ss := strings.Split(c.Text, "\n")
	if ss[len(ss)-1] == "" {
		ss = ss[:len(ss)-1]
	}
	return ss
}

// width: the declared width if any (negative counts as 0), else the widest text line.
func (c TCell) width() int {
	if c.DeclW != nil {
		if *c.DeclW < 0 {
			return 0
		}
		return *c.DeclW
	}
	w := 0
	for _, l := range c.lines() {
		if n := length.StringCells(l); n > w {
			w = n
		}
	}
	return w
}

// nlines: number of lines the cell occupies: at least its declared height, never fewer than its text lines.
func (c TCell) nlines() int {
	n := len(c.lines())
	if c.DeclH != nil && *c.DeclH > n {
		n = *c.DeclH
	}
	return n
}

// loose reports whether the statement leaves the exact layout of this cell open.
func (c TCell) loose() (bool, string) {
	if c.DeclH != nil && *c.DeclH >= 1 && *c.DeclH < len(c.lines()) {
		// Overview.md: the method "overrides" the height (cut) vs. the statement's "at least that many lines" (show): both defensible
		return true, "declared_height_below_lines"
	}
	if c.DeclW != nil && *c.DeclW < 0 {
		return true, "negative_declared_width"
	}
	if c.DeclW != nil && len(c.lines()) > 1 {
		return true, "declared_width_on_multi_line_item"
	}
	return false, ""
}

func (g *TGrid) NCols() int {
	n := 0
	if g.HasHeader {
		n = len(g.Header)
	}
	for _, r := range g.Rows {
		if !r.Sep && len(r.Cells) > n {
			n = len(r.Cells)
		}
	}
	return n
}

func (g *TGrid) Build(t tabular.Table) {
	items := func(cs []TCell) []interface{} {
		out := make([]interface{}, len(cs))
		for i, c := range cs {
			out[i] = c.Item()
		}
		return out
	}
	if g.HasHeader {
		t.AddHeaders(items(g.Header)...)
	}
	for _, r := range g.Rows {
		if r.Sep {
			t.AddSeparator()
		} else if r.Literal {
			t.AddRow(&tabular.Row{})
		} else {
			t.AddRowItems(items(r.Cells)...)
		}
	}
	for col, a := range g.Aligns {
		if a == nil {
			continue
		}
		if cp := t.Column(col); cp != nil {
			cp.SetProperty(align.PropertyType, a)
		}
	}
}

func (g *TGrid) String() string {
	var sb strings.Builder
	if g.HasHeader {
		fmt.Fprintf(&sb, "header%v", g.Header)
	} else {
		sb.WriteString("no-header")
	}
	for _, r := range g.Rows {
		if r.Sep {
			sb.WriteString(" | SEP")
		} else if r.Literal {
			sb.WriteString(" | &Row{}")
		} else {
			fmt.Fprintf(&sb, " | %v", r.Cells)
		}
	}
	if len(g.Aligns) > 0 {
		var d []string
		for _, a := range g.Aligns {
			d = append(d, alignName(a))
		}
		fmt.Fprintf(&sb, " aligns(col0..)=%v", d)
	}
	return sb.String()
}

func fromGrid(g *Grid) *TGrid {
	tg := &TGrid{HasHeader: g.HasHeader}
	for _, s := range g.Header {
		tg.Header = append(tg.Header, TCell{Text: s})
	}
	for _, r := range g.Rows {
		tr := TRow{Sep: r.Sep, Literal: r.Literal}
		for _, s := range r.Cells {
			tr.Cells = append(tr.Cells, TCell{Text: s})
		}
		tg.Rows = append(tg.Rows, tr)
	}
	return tg
}

// RefLine is one expected output line.
type RefLine struct {
	Kind  string // top | header | headrule | body | seprule | bottom
	Text  string
	Row   int      // body row index (for body lines)
	Slots []string // for content lines: the expected slot contents (padded)
}

// refTextTable computes the expected lines.  boxless: only content lines, slots joined by one space.
func refTextTable(g *TGrid, d decoration.Decoration, boxless bool) (lines []RefLine, widths []int) {
	n := g.NCols()
	widths = make([]int, n)
	upd := func(cs []TCell) {
		for i, c := range cs {
			if i < n && c.width() > widths[i] {
				widths[i] = c.width()
			}
		}
	}
	if g.HasHeader {
		upd(g.Header)
	}
	for _, r := range g.Rows {
		if !r.Sep {
			upd(r.Cells)
		}
	}
	aligns := make([]interface{}, n)
	for i := range aligns {
		if i+1 < len(g.Aligns) && g.Aligns[i+1] != nil {
			aligns[i] = g.Aligns[i+1]
		} else if len(g.Aligns) > 0 {
			aligns[i] = g.Aligns[0]
		}
	}
	rule := func(kind, left, horiz, cross, right string) {
		if boxless {
			return
		}
		var sb strings.Builder
		sb.WriteString(left)
		for i, w := range widths {
			sb.WriteString(strings.Repeat(horiz, w+2))
			if i < n-1 {
				sb.WriteString(cross)
			}
		}
		sb.WriteString(right)
		lines = append(lines, RefLine{Kind: kind, Text: sb.String()})
	}
	content := func(kind string, row int, cs []TCell, left, inner, right string) {
		h := 1
		for i, c := range cs {
			if i < n && c.nlines() > h {
				h = c.nlines()
			}
		}
		for l := 0; l < h; l++ {
			slots := make([]string, n)
			for i := 0; i < n; i++ {
				text, w := "", 0
				if i < len(cs) {
					cl := cs[i].lines()
					if l < len(cl) {
						text = cl[l]
						w = length.StringCells(text)
						if cs[i].DeclW != nil && len(cl) == 1 {
							w = cs[i].width()
						}
					}
				}
				pad := widths[i] - w
				if pad < 0 {
					pad = 0
				}
				switch aligns[i] {
				case align.Right:
					slots[i] = strings.Repeat(" ", pad) + text
				case align.Center:
					slots[i] = strings.Repeat(" ", pad/2) + text + strings.Repeat(" ", pad-pad/2)
				default:
					slots[i] = text + strings.Repeat(" ", pad)
				}
			}
			var fields []string
			if boxless {
				fields = slots
			} else {
				fields = append(fields, left)
				for i, s := range slots {
					fields = append(fields, s)
					if i < n-1 {
						fields = append(fields, inner)
					}
				}
				fields = append(fields, right)
			}
			lines = append(lines, RefLine{Kind: kind, Row: row, Text: strings.Join(fields, " "), Slots: slots})
		}
	}
	if g.HasHeader {
		rule("top", d.TopLeft, d.HOuter, d.HTopDown, d.TopRight)
		content("header", -1, g.Header, d.VHeader, d.VHeader, d.VHeader)
		rule("headrule", d.HBLeft, d.HOuter, d.HBCross, d.HBRight)
	} else {
		rule("top", d.TopLeft, d.HOuter, d.BTopDown, d.TopRight)
	}
	for ri, r := range g.Rows {
		if r.Sep {
			rule("seprule", d.LeftBodyRule, d.HRule, d.CrossPiece, d.RightBodyRule)
		} else {
			content("body", ri, r.Cells, d.VBodyBorder, d.VBodyInner, d.VBodyBorder)
		}
	}
	rule("bottom", d.BottomLeft, d.HOuter, d.BBottomUp, d.BottomRight)
	return lines, widths
}

type DecorChoice struct {
	Name    string
	Decor   decoration.Decoration
	Boxless bool
	Apply   func(tt *texttable.TextTable) error
}

func namedDecor(name string) DecorChoice {
	return DecorChoice{Name: name, Decor: decoration.Named(name), Boxless: name == decoration.D_NONE,
		Apply: func(tt *texttable.TextTable) error { _, err := tt.SetDecorationNamed(name); return err }}
}

func customDecor(name string, d decoration.Decoration) DecorChoice {
	return DecorChoice{Name: name, Decor: d, Apply: func(tt *texttable.TextTable) error { tt.SetDecoration(d); return nil }}
}

// compareTextTable renders g under dc with the real code and compares with the reference.
// Clause names are prefixed with prop ("C03"/"C04"); returns false if a violation was reported as known.
func compareTextTable(x *X, prop string, g *TGrid, dc DecorChoice, tags []string) {
	tt := texttable.New()
	g.Build(tt)
	if err := dc.Apply(tt); err != nil {
		panic("harness: decoration " + dc.Name + ": " + err.Error())
	}
	var out string
	var err error
	if p, val, site := Safe(func() { out, err = tt.Render() }); p {
		x.FailSite(prop+".no_panic", append(tags, "panic"), site, "text render panicked: %v; decoration %s; table %s", val, dc.Name, g)
		return
	}
	judgeTextTable(x, prop, g, dc, tags, out, err)
}

// judgeTextTable applies the reference comparison to an output obtained for the table described by g.
func judgeTextTable(x *X, prop string, g *TGrid, dc DecorChoice, tags []string, out string, err error) {
	x.Clause(prop + ".succeeds")
	if err != nil {
		x.Fail(prop+".succeeds", tags, "text render failed: %v; decoration %s; table %s", err, dc.Name, g)
		return
	}
	want, widths := refTextTable(g, dc.Decor, dc.Boxless)
	// loose cells: the statement leaves the layout open; only line-count lower bounds are checked
	looseWhy := ""
	chk := func(cs []TCell) {
		for _, c := range cs {
			if l, why := c.loose(); l {
				looseWhy = why
			}
		}
	}
	chk(g.Header)
	for _, r := range g.Rows {
		chk(r.Cells)
	}
	got := []string{}
	if out != "" {
		if !strings.HasSuffix(out, "\n") {
			x.Fail(prop+".structure", tags, "output does not end in a newline: %q", out)
			return
		}
		got = strings.Split(strings.TrimSuffix(out, "\n"), "\n")
	}
	if looseWhy != "" {
		x.Clause(prop + ".declared_height_minimum")
		x.Note("loose:" + looseWhy)
		// every declared height is a lower bound on the number of content lines of its row
		minLines := 0
		count := func(cs []TCell) {
			h := 1
			for _, c := range cs {
				if c.DeclH != nil && *c.DeclH > h {
					h = *c.DeclH
				}
			}
			minLines += h
		}
		if g.HasHeader {
			count(g.Header)
		}
		nrules := 2
		if g.HasHeader {
			nrules = 3
		}
		for _, r := range g.Rows {
			if r.Sep {
				nrules++
			} else {
				count(r.Cells)
			}
		}
		if dc.Boxless {
			nrules = 0
		}
		if len(got) < minLines+nrules {
			x.Fail(prop+".declared_height_minimum", tags, "%d output lines, the declared heights require at least %d; decoration %s; table %s\n%s", len(got), minLines+nrules, dc.Name, g, out)
		}
		return
	}
	x.Clause(prop + ".structure")
	if len(got) != len(want) {
		var kinds []string
		for _, w := range want {
			kinds = append(kinds, w.Kind)
		}
		x.Fail(prop+".structure", tags, "%d output lines, want %d %v; decoration %s; table %s\n%s", len(got), len(want), kinds, dc.Name, g, out)
		return
	}
	for i := range want {
		if got[i] == want[i].Text {
			continue
		}
		switch want[i].Kind {
		case "header", "body":
			x.Clause(prop + ".content_line")
			x.Fail(prop+".content_line", tags, "line %d (%s, column widths %v) is\n  %q want\n  %q (slots %q)\ndecoration %s; table %s\n%s", i, want[i].Kind, widths, got[i], want[i].Text, want[i].Slots, dc.Name, g, out)
		default:
			x.Clause(prop + ".rule_line")
			x.Fail(prop+".rule_line", tags, "line %d (%s rule, column widths %v) is\n  %q want\n  %q\ndecoration %s; table %s\n%s", i, want[i].Kind, widths, got[i], want[i].Text, dc.Name, g, out)
		}
		return
	}
	x.ClauseN(prop+".content_line", len(want))
	// independent invariant on the actual output: a rectangle in the library's own measure
	// (not meaningful when an item declares a display width different from what the measure sees)
	declares := false
	dw := func(cs []TCell) {
		for _, c := range cs {
			if c.DeclW != nil {
				declares = true
			}
		}
	}
	dw(g.Header)
	for _, r := range g.Rows {
		dw(r.Cells)
	}
	if declares {
		return
	}
	x.Clause(prop + ".rectangle")
	for i := range got {
		if length.StringCells(got[i]) != length.StringCells(got[0]) {
			x.Fail(prop+".rectangle", tags, "line %d is %d cells wide, line 0 is %d; decoration %s; table %s\n%s", i, length.StringCells(got[i]), length.StringCells(got[0]), dc.Name, g, out)
			return
		}
	}
}
