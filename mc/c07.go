package main

import (
	"bytes"
	"encoding/json"
	"fmt"
	"io"
	"math"
	"reflect"
	"strings"
	"time"

	"go.pennock.tech/tabular"
	tjson "go.pennock.tech/tabular/json"
	"go.pennock.tech/tabular/properties"
)

// C07 — JSON output is valid JSON that mirrors the table, or an error and nothing.

func init() {
	register(&Check{
		ID:        "C07",
		Level:     "model_checking",
		Technique: "bounded exhaustive enumeration of row-kind words (the comma/separator state machine), skipable assignments, item kinds and header configurations, each rendered by the real code and decoded by an order/duplicate-preserving JSON reader",
		Rule: "family lifecycle: one table and one long-lived wrapper, every sequence of <=5 in-place modifications (items mutated + Update incl. to empty text, headers replaced incl. duplicates and renames, rows grown, skipable of column 0/1/2 changed), Render and failed RenderTo, each Render judged against the current content; family row-words: every word over {object row, separator, zero-cell row, short row} of length <=7 (thorough <=8), i.e. every path through the comma state machine; " +
			"family skipable: every assignment of {unset,true,false,non-bool} to column 0 and 2 columns x every pair of cells from {nil, empty string, x, 0, nested empty cell}; " +
			"family items: 16 item kinds (scalars, slices, maps, structs with/without exported fields, Marshaler, TextMarshaler, nested cell, unencodable chan) x position; " +
			"family headers: every pair/triple of header texts from a 15-pool incl. duplicate, empty, control characters (ESC, NUL, DEL, VT, BS), U+2028 and a non-printable astral rune, x missing/too-few/enough/wider; non-trivial = word contains a separator or anomalous row, a skipable or non-default setting, a non-string item, or a refused configuration",
		Assumptions: []string{"key order inside an object is not asserted (the statement speaks of a mapping)", "header texts are valid UTF-8", "encoding/json defines 'the JSON encoding of an item'"},
		QuickBudget: 90 * time.Second, ThoroughBudget: 15 * time.Minute,
		Run: runC07,
	})
}

type jsonPair struct {
	Key string
	Val interface{}
}

// readOrderedJSON decodes a JSON array of objects keeping key order and duplicates.
func readOrderedJSON(out string) ([][]jsonPair, error) {
	if !json.Valid([]byte(out)) {
		return nil, fmt.Errorf("not valid JSON")
	}
	dec := json.NewDecoder(strings.NewReader(out))
	dec.UseNumber()
	tok, err := dec.Token()
	if err != nil {
		return nil, err
	}
	if d, ok := tok.(json.Delim); !ok || d != '[' {
		return nil, fmt.Errorf("top-level value is not an array")
	}
	var objs [][]jsonPair
	for dec.More() {
		tok, err := dec.Token()
		if err != nil {
			return nil, err
		}
		if d, ok := tok.(json.Delim); !ok || d != '{' {
			return nil, fmt.Errorf("array element %d is not an object", len(objs))
		}
		obj := []jsonPair{}
		for dec.More() {
			kt, err := dec.Token()
			if err != nil {
				return nil, err
			}
			k, ok := kt.(string)
			if !ok {
				return nil, fmt.Errorf("non-string key")
			}
			var v interface{}
			if err := dec.Decode(&v); err != nil {
				return nil, err
			}
			obj = append(obj, jsonPair{k, v})
		}
		if _, err := dec.Token(); err != nil {
			return nil, err
		}
		objs = append(objs, obj)
	}
	if _, err := dec.Token(); err != nil {
		return nil, err
	}
	if _, err := dec.Token(); err != io.EOF {
		return nil, fmt.Errorf("trailing data after the array")
	}
	return objs, nil
}

type c07Cell struct {
	item interface{}
	name string
}

type c07Table struct {
	hasHeader bool
	header    []string
	rows      [][]c07Cell         // nil row = separator
	skip      map[int]interface{} // column -> property value (absent = unset)
	desc      string
	// preHeader > 0: a narrower header of that many columns is added first and the skipable settings are made
	// THEN (before the table grows to its final width), instead of at the end
	preHeader int
	// literal[i]: row i (which has no cells) is added as the zero value &tabular.Row{} (nil cell slice, not a separator)
	literal map[int]bool
	// repeatOf[i] = j: row i is the very same *Row object as row j, attached to the table a second time
	repeatOf map[int]int
}

type hiddenStringer struct{ s string }

func (h hiddenStringer) String() string { return h.s }

type marshalerItem struct{ v string }

func (m marshalerItem) MarshalJSON() ([]byte, error) { return []byte(`{"custom":"` + m.v + `"}`), nil }

type textMarshalerItem struct{ v string }

func (m textMarshalerItem) MarshalText() ([]byte, error) { return []byte("TM:" + m.v), nil }

type exportedStruct struct {
	A int
	B string `json:"bee"`
}

func decodeGeneric(b []byte) (interface{}, error) {
	dec := json.NewDecoder(bytes.NewReader(b))
	dec.UseNumber()
	var v interface{}
	err := dec.Decode(&v)
	return v, err
}

// c07Expect computes what the statement requires: (objects, wantError).
func c07Expect(t *c07Table) (objs []map[string]interface{}, wantErr bool, why string) {
	ncols := 0
	if t.hasHeader {
		ncols = len(t.header)
	}
	for _, r := range t.rows {
		if r != nil && len(r) > ncols {
			ncols = len(r)
		}
	}
	if ncols == 0 {
		return nil, true, "no columns"
	}
	if !t.hasHeader {
		return nil, true, "missing headers"
	}
	if len(t.header) < ncols {
		return nil, true, "too few headers"
	}
	seen := map[string]bool{}
	for i := 0; i < ncols; i++ {
		if t.header[i] == "" {
			return nil, true, "empty header"
		}
		if seen[t.header[i]] {
			return nil, true, "duplicate header"
		}
		seen[t.header[i]] = true
	}
	def := false
	if v, ok := t.skip[0]; ok && v != nil {
		b, isb := v.(bool)
		if !isb {
			return nil, true, "non-boolean skipable on column 0"
		}
		def = b
	}
	skip := make([]bool, ncols)
	for i := 0; i < ncols; i++ {
		skip[i] = def
		if v, ok := t.skip[i+1]; ok && v != nil {
			b, isb := v.(bool)
			if !isb {
				return nil, true, "non-boolean skipable on a column"
			}
			skip[i] = b
		}
	}
	for _, r := range t.rows {
		if r == nil {
			continue
		}
		obj := map[string]interface{}{}
		for i, cl := range r {
			cell := tabular.NewCell(cl.item)
			text := cell.String()
			if skip[i] && text == "" {
				continue
			}
			enc, err := json.Marshal(cl.item)
			if err != nil {
				return nil, true, "unencodable item"
			}
			if string(enc) == "{}" && text != "" {
				enc, _ = json.Marshal(text)
			}
			v, err := decodeGeneric(enc)
			if err != nil {
				panic("harness: cannot decode reference encoding: " + err.Error())
			}
			obj[t.header[i]] = v
		}
		objs = append(objs, obj)
	}
	return objs, false, ""
}

func c07Run(x *X, c *Chooser, t *c07Table, tags []string) {
	jt := tjson.New()
	if t.preHeader > 0 {
		jt.AddHeaders(strItems(t.header[:t.preHeader])...)
		for col, v := range t.skip {
			if cp := jt.Column(col); cp != nil {
				cp.SetProperty(properties.Skipable, v)
			} else {
				panic("harness: skipable column does not exist yet")
			}
		}
	}
	if t.hasHeader {
		jt.AddHeaders(strItems(t.header)...)
	}
	for ri, r := range t.rows {
		if r == nil {
			jt.AddSeparator()
			continue
		}
		if t.literal[ri] {
			jt.AddRow(&tabular.Row{})
			continue
		}
		if j, again := t.repeatOf[ri]; again {
			jt.AddRow(jt.AllRows()[j])
			continue
		}
		items := make([]interface{}, len(r))
		for i := range r {
			items[i] = r[i].item
		}
		jt.AddRowItems(items...)
	}
	for col, v := range t.skip {
		if t.preHeader > 0 {
			break
		}
		if cp := jt.Column(col); cp != nil {
			cp.SetProperty(properties.Skipable, v)
		}
	}
	c.Logf("json table: %s", t.desc)
	var out string
	var err error
	if p, val, site := Safe(func() { out, err = jt.Render() }); p {
		x.FailSite("C07.no_panic", append(tags, "panic"), site, "json Render panicked: %v on %s", val, t.desc)
		return
	}
	c07Judge(x, t, tags, out, err)
}

// c07Judge applies the oracle to an output obtained for the table described by t.
func c07Judge(x *X, t *c07Table, tags []string, out string, err error) {
	want, wantErr, why := c07Expect(t)
	x.Clause("C07.error_means_no_text")
	if err != nil && out != "" {
		x.Fail("C07.error_means_no_text", tags, "Render returned error %v together with text %q", err, out)
	}
	if wantErr {
		x.Clause("C07.refused")
		if err == nil {
			x.Fail("C07.refused", append(tags, "refuse:"+why), "configuration must be refused (%s) but Render succeeded with %q; table %s", why, out, t.desc)
		}
		x.Outcome("refused:" + why)
		return
	}
	x.Clause("C07.succeeds")
	if err != nil {
		x.Fail("C07.succeeds", tags, "Render failed (%v) on a renderable table %s", err, t.desc)
		return
	}
	x.Clause("C07.valid")
	objs, rerr := readOrderedJSON(out)
	if rerr != nil {
		x.Fail("C07.valid", tags, "output is not a valid JSON array of objects: %v\noutput: %q\ntable %s", rerr, out, t.desc)
		return
	}
	x.Clause("C07.object_per_row")
	if len(objs) != len(want) {
		x.Fail("C07.object_per_row", tags, "%d objects, want %d (one per non-separator row); output %q table %s", len(objs), len(want), out, t.desc)
		return
	}
	for i, o := range objs {
		x.Clause("C07.keys")
		got := map[string]interface{}{}
		for _, p := range o {
			if _, dup := got[p.Key]; dup {
				x.Fail("C07.keys", tags, "object %d has key %q twice; output %q", i, p.Key, out)
				return
			}
			got[p.Key] = p.Val
		}
		if len(got) != len(want[i]) {
			x.Fail("C07.keys", tags, "object %d has keys %v, want %v; output %q table %s", i, mapKeys(got), mapKeys(want[i]), out, t.desc)
			return
		}
		for k, wv := range want[i] {
			gv, ok := got[k]
			if !ok {
				x.Fail("C07.keys", tags, "object %d lacks key %q (has %v); output %q table %s", i, k, mapKeys(got), out, t.desc)
				return
			}
			x.Clause("C07.values")
			if !reflect.DeepEqual(gv, wv) {
				x.Fail("C07.values", tags, "object %d key %q decodes to %#v, want %#v; output %q table %s", i, k, gv, wv, out, t.desc)
				return
			}
		}
	}
	x.Outcome(fmt.Sprintf("ok %d objs", len(objs)))
}

func mapKeys(m map[string]interface{}) []string {
	var k []string
	for s := range m {
		k = append(k, s)
	}
	return k
}

func runC07(x *X) {
	runC07FromCallback(x)
	// (a) row-kind words
	maxw := x.Pick(7, 8)
	x.Explore("row-words", ExploreOpts{ShardDepth: 2, Bound: fmt.Sprintf("all words over {O object row, S separator, Z zero-cell row, P short row, L the zero value &Row{}, R the first object row attached again} of length <=%d", maxw)}, func(c *Chooser) {
		t := &c07Table{hasHeader: true, header: []string{"k1", "k2"}, skip: map[int]interface{}{}}
		var w strings.Builder
		nontrivial := false
		var tags []string
		for i := 0; i < maxw; i++ {
			k := c.Choose(7)
			if k == 0 {
				break
			}
			x.Transition(1)
			switch k {
			case 6:
				// the first object row of the table attached once more (the same *Row in two positions)
				first := -1
				for j, r := range t.rows {
					if r != nil && len(r) == 2 && !t.literal[j] {
						first = j
						break
					}
				}
				if first < 0 {
					w.WriteByte('O')
					t.rows = append(t.rows, []c07Cell{{fmt.Sprintf("v%d", i), "str"}, {i, "int"}})
					break
				}
				w.WriteByte('R')
				if t.repeatOf == nil {
					t.repeatOf = map[int]int{}
				}
				t.repeatOf[len(t.rows)] = first
				t.rows = append(t.rows, t.rows[first])
				nontrivial = true
			case 5:
				// the zero value of the exported Row type: no cells (a nil slice), yet not a separator
				w.WriteByte('L')
				if t.literal == nil {
					t.literal = map[int]bool{}
				}
				t.literal[len(t.rows)] = true
				t.rows = append(t.rows, []c07Cell{})
				nontrivial = true
			case 1:
				w.WriteByte('O')
				t.rows = append(t.rows, []c07Cell{{fmt.Sprintf("v%d", i), "str"}, {i, "int"}})
			case 2:
				w.WriteByte('S')
				t.rows = append(t.rows, nil)
				nontrivial = true
			case 3:
				w.WriteByte('Z')
				t.rows = append(t.rows, []c07Cell{})
				nontrivial = true
			case 4:
				w.WriteByte('P')
				t.rows = append(t.rows, []c07Cell{{fmt.Sprintf("p%d", i), "str"}})
				nontrivial = true
			}
		}
		word := w.String()
		t.desc = "headers [k1 k2], rows " + word
		if nontrivial {
			x.Nontrivial(word)
		}
		x.State(word)
		tags = append(tags, c07WordTags(word)...)
		c07Run(x, c, t, tags)
	})

	ldepth := x.Pick(5, 5)
	lops := lifeOps(false, true)
	x.Explore("lifecycle", ExploreOpts{ShardDepth: 2, Bound: fmt.Sprintf("one table + one long-lived json wrapper: all sequences of <=%d operations over %d in-place modifications/skipable changes, Render, failed RenderTo", ldepth, len(lops))}, func(c *Chooser) {
		lifecycle(x, c, "C07", ldepth, lops, false, func(t tabular.Table) lifeRenderer { return tjson.Wrap(t) },
			func(m *lifeModel, tags []string, out string, err error) {
				t := &c07Table{hasHeader: m.hasHdr, header: m.header, skip: m.skip, desc: fmt.Sprint(m.ops)}
				for _, r := range m.rows {
					row := []c07Cell{}
					for _, lc := range r {
						row = append(row, c07Cell{lc.ptr, lc.Text})
					}
					t.rows = append(t.rows, row)
				}
				c07Judge(x, t, tags, out, err)
			})
	})
	// wide tables: 10-13 columns
	x.Explore("wide", ExploreOpts{ShardDepth: 2, Bound: "12 headers x rows of 9/12/3/0 cells and separators x skipable set on each column in turn (or on column 0)"}, func(c *Chooser) {
		t := &c07Table{hasHeader: true, skip: map[int]interface{}{}}
		for i := 1; i <= 12; i++ {
			t.header = append(t.header, fmt.Sprintf("k%d", i))
		}
		mk := func(n int, empty int) []c07Cell {
			r := make([]c07Cell, n)
			for i := range r {
				r[i] = c07Cell{fmt.Sprintf("v%d", i+1), "str"}
				if i == empty {
					r[i] = c07Cell{"", `""`}
				}
			}
			return r
		}
		col := c.Choose(14) // 0 none, 1..12 that column, 13 column 0
		e := col - 1
		t.rows = [][]c07Cell{mk(9, e), nil, mk(12, e), mk(3, e), {}, nil}
		if col >= 1 && col <= 12 {
			t.skip[col] = true
		} else if col == 13 {
			t.skip[0] = true
			t.rows[2][10] = c07Cell{nil, "nil"}
		}
		t.desc = fmt.Sprintf("12 headers, rows of 9,sep,12,3,0,sep cells; skipable on %d", col)
		x.Transition(1)
		x.Nontrivial(t.desc)
		c07Run(x, c, t, []string{"ten_or_more_columns"})
	})

	// settings made while the table is still narrow must survive its growth (column storage re-allocates at 10)
	x.Explore("skipable-set-before-growth", ExploreOpts{ShardDepth: 2, Bound: "header of 1/2/5/9 columns first; skipable {true, non-bool} on column 0 | 1 | the last one; then the header is replaced by one of 10/11/12/17/33 columns and rows are added (empty cell in that column)"}, func(c *Chooser) {
		w0 := []int{1, 2, 5, 9}[c.Choose(4)]
		wide := []int{10, 11, 12, 17, 33}[c.Choose(5)]
		col := []int{0, 1, w0}[c.Choose(3)]
		val := []interface{}{true, "yes"}[c.Choose(2)]
		t := &c07Table{hasHeader: true, skip: map[int]interface{}{col: val}, preHeader: w0}
		for i := 1; i <= wide; i++ {
			t.header = append(t.header, fmt.Sprintf("k%d", i))
		}
		mk := func(n int) []c07Cell {
			r := make([]c07Cell, n)
			for i := range r {
				r[i] = c07Cell{fmt.Sprintf("v%d", i+1), "str"}
				if i == col-1 || (col == 0 && i == 3) {
					r[i] = c07Cell{"", `""`}
				}
			}
			return r
		}
		t.rows = [][]c07Cell{mk(wide), mk(w0)}
		t.desc = fmt.Sprintf("header of %d columns, skipable=%v on column %d, then header of %d columns, rows of %d and %d cells", w0, val, col, wide, wide, w0)
		x.Transition(1)
		x.Nontrivial(t.desc)
		c07Run(x, c, t, []string{"property_set_before_growth", "ten_or_more_columns"})
	})

	// (b) skipable
	skipVals := []struct {
		name string
		v    interface{}
		set  bool
	}{{"unset", nil, false}, {"true", true, true}, {"false", false, true}, {"\"yes\"", "yes", true}, {"nil", nil, true}}
	cellVals := []c07Cell{{nil, "nil"}, {"", `""`}, {"x", `"x"`}, {0, "0"}, {tabular.NewCell(""), "Cell(\"\")"}}
	x.Explore("skipable", ExploreOpts{ShardDepth: 2, Bound: "5^3 skipable assignments x 5^2 cell pairs (+ a short row)"}, func(c *Chooser) {
		t := &c07Table{hasHeader: true, header: []string{"k1", "k2"}, skip: map[int]interface{}{}}
		var d []string
		for col := 0; col <= 2; col++ {
			sv := skipVals[c.Choose(len(skipVals))]
			if sv.set {
				t.skip[col] = sv.v
			}
			d = append(d, fmt.Sprintf("col%d.skipable=%s", col, sv.name))
		}
		a, b := cellVals[c.Choose(len(cellVals))], cellVals[c.Choose(len(cellVals))]
		t.rows = [][]c07Cell{{a, b}, {b}}
		t.desc = fmt.Sprintf("headers [k1 k2] %v rows [%s %s] [%s]", d, a.name, b.name, b.name)
		x.Transition(4)
		x.Nontrivial(t.desc)
		x.State(strings.Join(d, ","))
		c07Run(x, c, t, []string{"skipable_family"})
	})

	// (c) items
	items := []c07Cell{
		{"s", "string"}, {7, "int"}, {1.5, "float"}, {true, "bool"}, {nil, "nil"}, {[]int{1, 2}, "[]int"},
		{map[string]int{}, "empty map"}, {map[string]int{"a": 1}, "map"}, {exportedStruct{1, "b"}, "struct(exported)"},
		{hiddenStringer{"hid"}, "struct(no exported)+String"}, {hiddenStringer{""}, "struct(no exported)+empty String"},
		{marshalerItem{"m"}, "Marshaler"}, {textMarshalerItem{"t"}, "TextMarshaler"},
		{tabular.NewCell("inner"), "nested Cell"}, {tabular.NewCell(tabular.NewCell(5)), "nested Cell depth 2"},
		{make(chan int), "chan (unencodable)"}, {struct{}{}, "struct{}"}, {[]interface{}{}, "empty slice"}, {"é\"\\\n<&>", "hostile string"}, {"\x1b\x00\x7f\v\u2028\U000E0001", "control-character string"},
		{int64(math.MaxInt64), "MaxInt64"}, {uint64(math.MaxUint64), "MaxUint64"}, {1e21, "1e21"}, {math.Copysign(0, -1), "-0.0"},
		{math.NaN(), "NaN (unencodable)"}, {math.Inf(1), "+Inf (unencodable)"}, {int8(-128), "int8 min"}, {float32(0.1), "float32 0.1"},
		{strings.Repeat("x", 300) + "\"", "300-byte string"}, {json.RawMessage(`{"raw":[1,2]}`), "RawMessage"}, {json.Number("12345678901234567890"), "json.Number"},
	}
	x.Explore("items", ExploreOpts{ShardDepth: 2, Bound: fmt.Sprintf("%d item kinds x %d item kinds (two columns) x skipable default on/off", len(items), len(items))}, func(c *Chooser) {
		a, b := items[c.Choose(len(items))], items[c.Choose(len(items))]
		t := &c07Table{hasHeader: true, header: []string{"k1", "k2"}, skip: map[int]interface{}{}}
		if c.Bool() {
			t.skip[0] = true
		}
		t.rows = [][]c07Cell{{a, b}}
		t.desc = fmt.Sprintf("headers [k1 k2] skip=%v row [%s, %s]", t.skip, a.name, b.name)
		x.Transition(2)
		x.Nontrivial(t.desc)
		c07Run(x, c, t, []string{"items_family"})
	})

	// long header texts and long values
	long := LongTexts(`"`)
	x.Explore("long-texts", ExploreOpts{ShardDepth: 1, Bound: fmt.Sprintf("%d long texts (63..1025 bytes, quote in the middle/at the end, multi-byte, 40 lines) as header and as value", len(long))}, func(c *Chooser) {
		s := long[c.Choose(len(long))]
		asHeader := c.Bool()
		t := &c07Table{hasHeader: true, header: []string{"k1", "k2"}, skip: map[int]interface{}{}}
		if asHeader {
			t.header[1] = s
			t.rows = [][]c07Cell{{{"v", "str"}, {1, "int"}}}
		} else {
			t.rows = [][]c07Cell{{{s, "long string"}, {s, "long string"}}}
		}
		t.desc = fmt.Sprintf("long text of %d bytes as header=%v", len(s), asHeader)
		x.Transition(1)
		x.Nontrivial(t.desc + fmt.Sprint(hashStr(s)))
		c07Run(x, c, t, []string{"long_text"})
	})
	// (d) headers
	hpool := []string{"a", `"`, `\`, "\n", "<&>", "é", " ", "a", "", "\x1b[1m", "\x00", "\x7f", "\u2028", "\U000E0001", "\t\v\b"}
	x.Explore("headers", ExploreOpts{ShardDepth: 2, Bound: "header none / 0..3 texts from a 15-pool (incl. a duplicate, an empty one, control and non-printable characters) x rows of 0..3 cells"}, func(c *Chooser) {
		t := &c07Table{skip: map[int]interface{}{}}
		nh := c.Choose(5) // 0 = none, k = k-1 cells
		if nh > 0 {
			t.hasHeader = true
			t.header = make([]string, nh-1)
			for i := range t.header {
				t.header[i] = hpool[c.Choose(len(hpool))]
			}
		}
		nc := c.Choose(4)
		row := make([]c07Cell, nc)
		for i := range row {
			row[i] = c07Cell{fmt.Sprintf("v%d", i), "str"}
		}
		t.rows = [][]c07Cell{row}
		if c.Bool() {
			t.rows = append(t.rows, nil)
		}
		t.desc = fmt.Sprintf("hasHeader=%v headers %q, row of %d cells, %d rows", t.hasHeader, t.header, nc, len(t.rows))
		x.Transition(2)
		x.Nontrivial(t.desc)
		c07Run(x, c, t, []string{"headers_family"})
	})
}

func c07WordTags(w string) []string {
	var t []string
	if strings.Contains(w, "S") {
		t = append(t, "has_separator")
	}
	// a separator after the last object row
	last := strings.LastIndexAny(w, "OZP")
	if last >= 0 && strings.Contains(w[last:], "S") {
		t = append(t, "separator_after_last_object")
	}
	if strings.HasPrefix(w, "S") {
		t = append(t, "separator_first")
	}
	if strings.Contains(w, "SS") {
		t = append(t, "separator_consecutive")
	}
	if strings.Contains(w, "Z") {
		t = append(t, "row_with_zero_cells")
	}
	if w != "" && strings.Trim(w, "S") == "" {
		t = append(t, "only_separators")
	}
	return t
}
