package main

import (
	"fmt"
	"go.pennock.tech/tabular"
	"html"
	"html/template"
	"strings"
	"time"

	thtml "go.pennock.tech/tabular/html"
)

// C06 — HTML output has a fixed tag skeleton and cell text can never become markup.

var c06Atoms = []string{`<`, `>`, `&`, `"`, `'`, `&amp;`, `&#60;`, `&lt`, `</td><script>alert(1)</script>`, `<!--`, `]]>`, `a b`, "\n", `x" onmouseover="y`, `</style>`, "{{.}}", "=", "`", "é", "ｗ", "\u2028"}

func init() {
	register(&Check{
		ID:        "C06",
		Level:     "exploration",
		Technique: "bounded exhaustive input enumeration (markup-hostile atoms and all ordered pairs in every text context; all small shapes with separators anywhere) rendered by the real code and tokenised by an independent strict tag/text tokenizer",
		Rule: "family hostile-text: each of 21 atoms and every ordered pair in 7 contexts (header cell, body cell, caption, id, class, row-class generator value, all at once); " +
			"family wrapper-lifecycle: every sequence of <=5 (thorough 6) operations {set generator A, set generator B, set caption, set id+class, add row, add separator, Render, RenderTo a failing writer, Render with a panicking generator} on one long-lived wrapper, each Render validated against the configuration current at that moment; family shapes: header none/0..3 cells, <=4 rows (thorough <=5) each separator or 0..3 cells, with and without row-class generator, template name empty or set, rendered twice on the same wrapper; " +
			"non-trivial = text containing a markup-significant character, or a shape with separators/zero-cell rows/no header; distinct by input",
		Assumptions: []string{"NUL and invalid UTF-8 are outside the alphabet (html/template replaces them by design)", "whitespace between structural tags is ignored"},
		QuickBudget: 120 * time.Second, ThoroughBudget: 15 * time.Minute,
		Run: runC06,
	})
}

type htmlTok struct {
	Tag   string // "table", "/table", ... or "" for text
	Attrs [][2]string
	Text  string
}

// tokenizeStrict: tags are <name( attr="value")*> or </name>; everything else is text.
func tokenizeStrict(s string) ([]htmlTok, error) {
	var toks []htmlTok
	i := 0
	for i < len(s) {
		if s[i] != '<' {
			j := strings.IndexByte(s[i:], '<')
			if j < 0 {
				j = len(s) - i
			}
			toks = append(toks, htmlTok{Text: s[i : i+j]})
			i += j
			continue
		}
		j := i + 1
		closing := false
		if j < len(s) && s[j] == '/' {
			closing = true
			j++
		}
		k := j
		for k < len(s) && (s[k] >= 'a' && s[k] <= 'z' || s[k] >= 'A' && s[k] <= 'Z' || s[k] >= '0' && s[k] <= '9') {
			k++
		}
		if k == j {
			return nil, fmt.Errorf("offset %d: '<' not followed by a tag name", i)
		}
		t := htmlTok{Tag: strings.ToLower(s[j:k])}
		if closing {
			t.Tag = "/" + t.Tag
		}
		for {
			for k < len(s) && (s[k] == ' ' || s[k] == '\n' || s[k] == '\t') {
				k++
			}
			if k >= len(s) {
				return nil, fmt.Errorf("offset %d: unterminated tag", i)
			}
			if s[k] == '>' {
				k++
				break
			}
			a := k
			for k < len(s) && (s[k] >= 'a' && s[k] <= 'z' || s[k] == '-') {
				k++
			}
			if k == a || k+1 >= len(s) || s[k] != '=' || s[k+1] != '"' {
				return nil, fmt.Errorf("offset %d: malformed attribute in tag <%s", k, t.Tag)
			}
			name := s[a:k]
			k += 2
			e := strings.IndexByte(s[k:], '"')
			if e < 0 {
				return nil, fmt.Errorf("offset %d: unterminated attribute value", k)
			}
			val := s[k : k+e]
			if strings.ContainsAny(val, "<>") {
				return nil, fmt.Errorf("offset %d: raw angle bracket inside attribute value %q", k, val)
			}
			t.Attrs = append(t.Attrs, [2]string{name, val})
			k += e + 1
		}
		if closing && len(t.Attrs) > 0 {
			return nil, fmt.Errorf("closing tag with attributes")
		}
		toks = append(toks, t)
		i = k
	}
	return toks, nil
}

type c06Input struct {
	g                  *Grid
	caption, id, class string
	gen                bool
	genVal             string // value returned by the generator ("" -> r<n> or <genTag><n>)
	genTag             string
	tmplName           string
}

func c06Render(in *c06Input, twice bool) (out string, err error, calls []int, out2 string, err2 error, calls2 []int) {
	t := thtml.New()
	in.g.Build(t)
	t.Caption, t.Id, t.Class, t.TemplateName = in.caption, in.id, in.class, in.tmplName
	var log []int
	if in.gen {
		t.SetRowClassGenerator(func(n int, ctx interface{}) template.HTMLAttr {
			log = append(log, n)
			if in.genVal != "" {
				return template.HTMLAttr(in.genVal)
			}
			return template.HTMLAttr(fmt.Sprintf("r%d", n))
		}, nil)
	}
	out, err = t.Render()
	calls = log
	if twice {
		log = nil
		out2, err2 = t.Render()
		calls2 = log
	}
	return
}

func c06Check(x *X, c *Chooser, in *c06Input, extraTags []string) {
	g := in.g
	c.Logf("html table: %s caption=%q id=%q class=%q gen=%v genval=%q tmpl=%q", g, in.caption, in.id, in.class, in.gen, in.genVal, in.tmplName)
	tags := append(g.Tags(), extraTags...)
	var out, out2 string
	var err, err2 error
	var calls, calls2 []int
	if p, val, site := Safe(func() { out, err, calls, out2, err2, calls2 = c06Render(in, true) }); p {
		x.FailSite("C06.no_panic", append(tags, "panic"), site, "html Render panicked: %v on %s", val, g)
		return
	}
	x.Clause("C06.succeeds")
	if err != nil || err2 != nil {
		x.Fail("C06.succeeds", tags, "html Render failed: %v / %v on %s", err, err2, g)
		return
	}
	// the oracle is applied to the first and to the second render of the same wrapper independently
	for pass, po := range []string{out, out2} {
		pc := calls
		if pass == 1 {
			pc = calls2
		}
		if !c06Validate(x, in, g, tags, po, pc, pass) {
			return
		}
	}
	x.Outcome(fmt.Sprintf("ok len=%d gen=%v", len(out), in.gen))
}

func c06Validate(x *X, in *c06Input, g *Grid, tags []string, out string, calls []int, pass int) bool {
	if pass == 1 {
		tags = append(append([]string{}, tags...), "second_render_same_wrapper")
	}
	toks, terr := tokenizeStrict(out)
	x.Clause("C06.tokenizes")
	if terr != nil {
		x.Fail("C06.tokenizes", tags, "output is not well-formed tag soup: %v\n%s\ntable %s", terr, out, g)
		return false
	}
	// expected token list
	type exp struct {
		tag   string
		attrs [][2]string
		text  *string
	}
	var want []exp
	var tattrs [][2]string
	if in.class != "" {
		tattrs = append(tattrs, [2]string{"class", in.class})
	}
	if in.id != "" {
		tattrs = append(tattrs, [2]string{"id", in.id})
	}
	want = append(want, exp{tag: "table", attrs: tattrs})
	if in.caption != "" {
		cp := in.caption
		want = append(want, exp{tag: "caption"}, exp{text: &cp}, exp{tag: "/caption"})
	}
	rowClass := func(n int) [][2]string {
		if !in.gen {
			return nil
		}
		v := in.genVal
		if v == "" {
			tag := in.genTag
			if tag == "" {
				tag = "r"
			}
			v = fmt.Sprintf("%s%d", tag, n)
		}
		return [][2]string{{"class", v}}
	}
	var wantCalls []int
	if in.gen {
		wantCalls = append(wantCalls, 0)
	}
	want = append(want, exp{tag: "thead"}, exp{tag: "tr", attrs: rowClass(0)})
	for i := range g.Header {
		s := g.Header[i]
		want = append(want, exp{tag: "th"}, exp{text: &s}, exp{tag: "/th"})
	}
	want = append(want, exp{tag: "/tr"}, exp{tag: "/thead"}, exp{tag: "tbody"})
	for ri, r := range g.Rows {
		if r.Sep {
			continue
		}
		if in.gen {
			wantCalls = append(wantCalls, ri+1)
		}
		want = append(want, exp{tag: "tr", attrs: rowClass(ri + 1)})
		for i := range r.Cells {
			s := r.Cells[i]
			want = append(want, exp{tag: "td"}, exp{text: &s}, exp{tag: "/td"})
		}
		want = append(want, exp{tag: "/tr"})
	}
	want = append(want, exp{tag: "/tbody"}, exp{tag: "/table"})

	// compare, skipping whitespace-only text between structural tags
	x.Clause("C06.skeleton")
	wi := 0
	for ti := 0; ti < len(toks); ti++ {
		tk := toks[ti]
		if tk.Tag == "" {
			// text: must be expected here, or whitespace only
			if wi < len(want) && want[wi].text != nil {
				x.Clause("C06.text_decodes")
				if got := html.UnescapeString(tk.Text); got != *want[wi].text {
					x.Fail("C06.text_decodes", tags, "text %q decodes to %q, supplied string is %q\n%s\ntable %s", tk.Text, got, *want[wi].text, out, g)
					return false
				}
				wi++
				continue
			}
			if strings.TrimSpace(tk.Text) != "" {
				x.Fail("C06.skeleton", tags, "unexpected text %q between structural tags (token %d)\n%s\ntable %s", tk.Text, ti, out, g)
				return false
			}
			continue
		}
		// an expected empty text has no token
		for wi < len(want) && want[wi].text != nil && *want[wi].text == "" {
			wi++
		}
		if wi >= len(want) {
			x.Fail("C06.skeleton", tags, "extra tag <%s> after the end of the expected skeleton\n%s\ntable %s", tk.Tag, out, g)
			return false
		}
		w := want[wi]
		if w.text != nil {
			x.Fail("C06.skeleton", tags, "tag <%s> where the text %q was expected\n%s\ntable %s", tk.Tag, *w.text, out, g)
			return false
		}
		if tk.Tag != w.tag {
			x.Fail("C06.skeleton", tags, "tag <%s> where <%s> was expected (position %d of skeleton)\n%s\ntable %s", tk.Tag, w.tag, wi, out, g)
			return false
		}
		if len(tk.Attrs) != len(w.attrs) {
			x.Fail("C06.skeleton", tags, "tag <%s> has attributes %v, want %v\n%s\ntable %s", tk.Tag, tk.Attrs, w.attrs, out, g)
			return false
		}
		for ai := range w.attrs {
			x.Clause("C06.attr_decodes")
			if tk.Attrs[ai][0] != w.attrs[ai][0] || html.UnescapeString(tk.Attrs[ai][1]) != w.attrs[ai][1] {
				x.Fail("C06.attr_decodes", tags, "tag <%s> attribute %s=%q decodes to %q, want %s=%q\n%s", tk.Tag, tk.Attrs[ai][0], tk.Attrs[ai][1], html.UnescapeString(tk.Attrs[ai][1]), w.attrs[ai][0], w.attrs[ai][1], out)
				return false
			}
		}
		wi++
	}
	for wi < len(want) && want[wi].text != nil && *want[wi].text == "" {
		wi++
	}
	if wi != len(want) {
		x.Fail("C06.skeleton", tags, "output ends after %d of %d expected skeleton items\n%s\ntable %s", wi, len(want), out, g)
		return false
	}
	x.Clause("C06.generator_calls")
	if fmt.Sprint(calls) != fmt.Sprint(wantCalls) {
		x.Fail("C06.generator_calls", tags, "row-class generator called with %v, want %v (0 for the header, 1-based positions counting separators)\ntable %s", calls, wantCalls, g)
		return false
	}
	return true
}

// c06Lifecycle: one long-lived wrapper whose configuration and table change between renders;
// every render must reflect the configuration current at that moment.
type c06SelfWriter struct {
	ht    *thtml.HTMLTable
	buf   strings.Builder
	calls int
	at    int
	inner []string
}

func (w *c06SelfWriter) Write(p []byte) (int, error) {
	w.calls++
	if w.ht != nil && w.calls == w.at {
		o, _ := w.ht.Render()
		w.inner = append(w.inner, o)
	}
	return w.buf.Write(p)
}

func c06Lifecycle(x *X, c *Chooser, depth int) {
	g := &Grid{HasHeader: true, Header: []string{"h1", "h2"}, Rows: []GridRow{{Cells: []string{"c1", "c2"}}, {Sep: true}, {Cells: []string{"d1"}}}}
	t := thtml.New()
	g.Build(t)
	in := &c06Input{g: g}
	var calls []int
	genFor := func(tag string) func(int, interface{}) template.HTMLAttr {
		return func(n int, ctx interface{}) template.HTMLAttr {
			calls = append(calls, n)
			return template.HTMLAttr(fmt.Sprintf("%s%d", tag, n))
		}
	}
	c.Logf("ht := html.New() with %s", g)
	renders := 0
	var ops []string
	for step := 0; step < depth; step++ {
		k := c.Choose(15)
		if k == 0 {
			break
		}
		x.Transition(1)
		switch k {
		case 14:
			// a body cell replaced in place (same row, same number of cells)
			nt := fmt.Sprintf("repl<%d>&", step)
			c.Logf("*ht.CellAt(1,1) = tabular.NewCell(%q)", nt)
			cp, err := t.CellAt(tabular.CellLocation{Row: 1, Column: 1})
			if err != nil {
				panic("harness: CellAt(1,1): " + err.Error())
			}
			*cp = tabular.NewCell(nt)
			g.Rows[0].Cells[0] = nt
			ops = append(ops, "replace-cell")
		case 13:
			// a generator that, on its first call of a render, renders ANOTHER html wrapper (different table, own generator)
			c.Logf("ht.SetRowClassGenerator(genN)   // genN renders a second html wrapper while ht is being rendered")
			inner := thtml.New()
			inner.AddHeaders("inner-h")
			inner.AddRowItems("inner-v")
			inner.AddRowItems("inner-w")
			inner.SetRowClassGenerator(func(n int, ctx interface{}) template.HTMLAttr { return template.HTMLAttr(fmt.Sprintf("inner%d", n)) }, nil)
			t.SetRowClassGenerator(func(n int, ctx interface{}) template.HTMLAttr {
				calls = append(calls, n)
				if len(calls) == 1 {
					inner.Render()
				}
				return template.HTMLAttr(fmt.Sprintf("N%d", n))
			}, nil)
			in.gen, in.genVal, in.genTag = true, "", "N"
			ops = append(ops, "genN(nested render)")
		case 11, 12:
			// the header replaced by a narrower / wider one
			hs := [][]string{{"only"}, {"n1", "n2", "n3"}}[k-11]
			c.Logf("ht.AddHeaders(%q)", hs)
			items := make([]interface{}, len(hs))
			for i := range hs {
				items[i] = hs[i]
			}
			t.AddHeaders(items...)
			g.Header = append([]string{}, hs...)
			ops = append(ops, fmt.Sprintf("reheader%d", len(hs)))
		case 8, 9:
			// a render that fails part-way (the writer refuses, or takes half of a write and then refuses): not judged
			// itself (C15), but it must leave nothing behind on the wrapper
			fw := &faultWriter{mode: map[int]int{8: 1, 9: 3}[k], k: 1}
			c.Logf("ht.RenderTo(writer: %s)", map[int]string{8: "fails at its first Write", 9: "accepts half of its first Write, then an error"}[k])
			if p, val, site := Safe(func() { t.RenderTo(fw) }); p {
				x.FailSite("C06.no_panic", []string{"lifecycle", "panic", "failing_writer"}, site, "html RenderTo with a failing writer panicked: %v after %v", val, ops)
				return
			}
			ops = append(ops, "failed-render")
		case 10:
			// a render during which the user's generator panics on its second call; afterwards the previous generator is restored
			c.Logf("ht.SetRowClassGenerator(panics on 2nd call); ht.Render() under recover; previous generator restored")
			n := 0
			t.SetRowClassGenerator(func(int, interface{}) template.HTMLAttr {
				n++
				if n == 2 {
					panic("user generator failed")
				}
				return "x"
			}, nil)
			Safe(func() { t.Render() })
			if in.gen {
				t.SetRowClassGenerator(genFor(in.genTag), nil)
			} else {
				t.SetRowClassGenerator(nil, nil)
			}
			ops = append(ops, "render-with-panicking-generator")
		case 1, 2:
			tag := []string{"A", "B"}[k-1]
			c.Logf("ht.SetRowClassGenerator(gen%s)", tag)
			t.SetRowClassGenerator(genFor(tag), nil)
			in.gen, in.genVal, in.genTag = true, "", tag
			ops = append(ops, "gen"+tag)
		case 3:
			in.caption = fmt.Sprintf("cap<%d>", step)
			c.Logf("ht.Caption = %q", in.caption)
			t.Caption = in.caption
			ops = append(ops, "caption")
		case 4:
			in.id, in.class = fmt.Sprintf("id%d", step), fmt.Sprintf("cls %d", step)
			c.Logf("ht.Id, ht.Class = %q, %q", in.id, in.class)
			t.Id, t.Class = in.id, in.class
			ops = append(ops, "idclass")
		case 5:
			c.Logf("ht.AddRowItems(%q)", fmt.Sprintf("new%d", step))
			t.AddRowItems(fmt.Sprintf("new%d", step), "&<")
			g.Rows = append(g.Rows, GridRow{Cells: []string{fmt.Sprintf("new%d", step), "&<"}})
			ops = append(ops, "addrow")
		case 6:
			c.Logf("ht.AddSeparator()")
			t.AddSeparator()
			g.Rows = append(g.Rows, GridRow{Sep: true})
			ops = append(ops, "addsep")
		case 7:
			c.Logf("ht.Render()")
			calls = nil
			var out string
			var err error
			if p, val, site := Safe(func() { out, err = t.Render() }); p {
				x.FailSite("C06.no_panic", []string{"lifecycle", "panic"}, site, "html Render panicked: %v after %v", val, ops)
				return
			}
			renders++
			tags := []string{"lifecycle"}
			if renders > 1 {
				tags = append(tags, "second_render_same_wrapper", "configuration_changed_between_renders")
			}
			for _, o := range ops {
				if o == "failed-render" || o == "render-with-panicking-generator" {
					tags = appendUnique(tags, "after_"+o)
				}
			}
			x.Clause("C06.succeeds")
			if err != nil {
				x.Fail("C06.succeeds", tags, "html Render failed: %v after %v", err, ops)
				return
			}
			if !c06Validate(x, in, g, tags, out, calls, renders-1) {
				return
			}
			ops = append(ops, "render")
		}
	}
	x.State(fmt.Sprint(ops))
	if renders > 1 {
		x.Nontrivial(fmt.Sprint(ops))
	}
}

// family "re-entrant-same-wrapper": the wrapper (without a row-class generator, whose context is documented as not
// re-entrant) is rendered again from inside its own render: the writer calls ht.Render() before accepting Write #k.
func runC06Reentrant(x *X) {
	grids := []*Grid{
		{HasHeader: true, Header: []string{"h1", "h2", "h3"}, Rows: []GridRow{{Cells: []string{"r1c1", "r1<c2>", "r1'c3"}}, {Sep: true}, {Cells: []string{"r2c1"}}, {Cells: []string{"r3c1", "r3<c2>", "r3'c3"}}}},
		{Rows: []GridRow{{Cells: []string{"a&", "b"}}, {Cells: []string{"c", "d\"", "e"}}}},
	}
	x.Explore("re-entrant-same-wrapper", ExploreOpts{ShardDepth: 2, Bound: "2 tables x every Write index k of the render: the writer calls Render() on the SAME wrapper before accepting Write #k; outer and inner output validated"}, func(c *Chooser) {
		g := grids[c.Choose(len(grids))]
		probe := thtml.New()
		g.Build(probe)
		pw := &c06SelfWriter{}
		probe.RenderTo(pw)
		if pw.calls == 0 {
			return
		}
		at := 1 + c.Choose(pw.calls)
		t := thtml.New()
		g.Build(t)
		in := &c06Input{g: g}
		c.Logf("html table %s; RenderTo(writer that calls Render() on the same wrapper before accepting Write #%d of %d)", g, at, pw.calls)
		x.Transition(1)
		x.Nontrivial(fmt.Sprint(g.ShapeKey(), at))
		nw := &c06SelfWriter{ht: t, at: at}
		var err error
		if p, val, site := Safe(func() { err = t.RenderTo(nw) }); p {
			x.FailSite("C06.no_panic", []string{"panic", "re_entrant_same_wrapper"}, site, "html RenderTo with a re-entrant writer panicked: %v", val)
			return
		}
		x.Clause("C06.succeeds")
		if err != nil {
			x.Fail("C06.succeeds", []string{"re_entrant_same_wrapper"}, "html RenderTo failed: %v", err)
			return
		}
		for i, o := range append([]string{nw.buf.String()}, nw.inner...) {
			if !c06Validate(x, in, g, []string{"re_entrant_same_wrapper", fmt.Sprintf("output:%d", i)}, o, nil, 0) {
				return
			}
		}
	})
}

func runC06(x *X) {
	runC06Reentrant(x)
	runC06Items(x)
	runC06FromCallback(x)
	runC06ShapeFromCallback(x)
	x.Explore("wrapper-lifecycle", ExploreOpts{ShardDepth: 2, Bound: fmt.Sprintf("all sequences of <=%d operations {set generator A, set generator B, set caption, set id+class, add row, add separator, Render, RenderTo a writer failing at / half-way through its first Write, Render with a generator that panics, AddHeaders(1 cell), AddHeaders(3 cells), a generator that renders another html wrapper from inside the render, a body cell replaced in place} on one long-lived wrapper", x.Pick(5, 6))}, func(c *Chooser) {
		c06Lifecycle(x, c, x.Pick(5, 6))
	})
	var texts []string
	texts = append(texts, c06Atoms...)
	for _, a := range c06Atoms {
		for _, b := range c06Atoms {
			texts = append(texts, a+b)
		}
	}
	contexts := []string{"header cell", "body cell", "caption", "id", "class", "generator value", "everywhere"}
	x.Explore("hostile-text", ExploreOpts{ShardDepth: 2, Bound: fmt.Sprintf("%d contexts x %d texts (atoms and ordered pairs)", len(contexts), len(texts))}, func(c *Chooser) {
		ctx := c.Choose(len(contexts))
		s := texts[c.Choose(len(texts))]
		in := &c06Input{g: &Grid{HasHeader: true, Header: []string{"h1", "h2"}, Rows: []GridRow{{Cells: []string{"c1", "c2"}}, {Sep: true}, {Cells: []string{"d1"}}}}}
		switch ctx {
		case 0:
			in.g.Header[1] = s
		case 1:
			in.g.Rows[0].Cells[0] = s
		case 2:
			in.caption = s
		case 3:
			in.id = s
		case 4:
			in.class = s
		case 5:
			in.gen, in.genVal = true, s
		case 6:
			in.g.Header[0], in.g.Rows[2].Cells[0], in.caption, in.id, in.class, in.gen, in.genVal = s, s, s, s, s, true, s
		}
		c.Logf("context=%s text=%q", contexts[ctx], s)
		x.Transition(1)
		x.Nontrivial(contexts[ctx] + "\x00" + s)
		c06Check(x, c, in, []string{"context:" + contexts[ctx]})
	})
	// rows that were afterwards ALSO attached to a second table, at other positions: the generator must still
	// be told the row's position in the table being rendered
	x.Explore("rows-also-in-another-table", ExploreOpts{ShardDepth: 1, Bound: "4 shapes; after building, every row object is additionally attached to a second table in reverse order behind two extra rows"}, func(c *Chooser) {
		shapes := []*Grid{
			{HasHeader: true, Header: []string{"h1", "h2"}, Rows: []GridRow{{Cells: []string{"a", "b"}}, {Sep: true}, {Cells: []string{"c"}}, {Cells: []string{"d", "e"}}}},
			{Rows: []GridRow{{Cells: []string{"a"}}, {Cells: []string{"b"}}}},
			{HasHeader: true, Header: []string{"h"}, Rows: []GridRow{{Sep: true}, {Cells: []string{"a"}}, {Sep: true}}},
			{HasHeader: true, Header: []string{"h"}, Rows: []GridRow{{Cells: []string{"only"}}}},
		}
		g := shapes[c.Choose(len(shapes))]
		t := thtml.New()
		g.Build(t)
		other := thtml.New()
		other.AddRowItems("x")
		other.AddRowItems("y")
		rr := t.AllRows()
		for i := len(rr) - 1; i >= 0; i-- {
			if !rr[i].IsSeparator() {
				other.AddRow(rr[i])
			}
		}
		c.Logf("html table %s; then every row object also added to a second table (reverse order, after 2 other rows)", g)
		var calls []int
		t.SetRowClassGenerator(func(n int, ctx interface{}) template.HTMLAttr {
			calls = append(calls, n)
			return template.HTMLAttr(fmt.Sprintf("r%d", n))
		}, nil)
		var out string
		var err error
		if p, val, site := Safe(func() { out, err = t.Render() }); p {
			x.FailSite("C06.no_panic", []string{"panic", "rows_shared_with_another_table"}, site, "html Render panicked: %v", val)
			return
		}
		x.Transition(1)
		x.Nontrivial(g.ShapeKey())
		if err != nil {
			x.Fail("C06.succeeds", []string{"rows_shared_with_another_table"}, "html Render failed: %v", err)
			return
		}
		c06Validate(x, &c06Input{g: g, gen: true}, g, []string{"rows_shared_with_another_table"}, out, calls, 0)
	})
	long := LongTexts("<")
	x.Explore("long-texts", ExploreOpts{ShardDepth: 2, Bound: fmt.Sprintf("4 contexts x %d long texts (63..1025 bytes, with an angle bracket in the middle/at the end, multi-byte, 40 lines)", len(long))}, func(c *Chooser) {
		ctx := c.Choose(4)
		s := long[c.Choose(len(long))]
		in := &c06Input{g: &Grid{HasHeader: true, Header: []string{"h1", "h2"}, Rows: []GridRow{{Cells: []string{"c1", "c2"}}}}}
		switch ctx {
		case 0:
			in.g.Header[1] = s
		case 1:
			in.g.Rows[0].Cells[0] = s
		case 2:
			in.caption = s
		case 3:
			in.class = s
		}
		c.Logf("context=%d text of %d bytes", ctx, len(s))
		x.Transition(1)
		x.Nontrivial(fmt.Sprint(ctx, len(s), hashStr(s)))
		c06Check(x, c, in, []string{"long_text"})
	})
	wide := WideGrids()
	x.Explore("wide", ExploreOpts{ShardDepth: 2, Bound: "1 table of 56 rows and 4 tables of 10-13 columns x generator on/off x a hostile text in each column position in turn"}, func(c *Chooser) {
		g0 := wide[c.Choose(len(wide))]
		gen := c.Bool()
		g := &Grid{HasHeader: g0.HasHeader, Header: append([]string{}, g0.Header...)}
		for _, r := range g0.Rows {
			g.Rows = append(g.Rows, GridRow{Sep: r.Sep, Cells: append([]string{}, r.Cells...)})
		}
		col := c.Choose(g.NCols() + 1)
		if col > 0 {
			g.EachCell(func(kind string, row, cl int, p *string) {
				if cl == col-1 {
					*p = "</td><b>&" + *p
				}
			})
		}
		x.Transition(1)
		x.Nontrivial(fmt.Sprint(g.ShapeKey(), col, gen))
		c06Check(x, c, &c06Input{g: g, gen: gen}, []string{"ten_or_more_columns"})
	})
	x.Explore("shapes", ExploreOpts{ShardDepth: 2, Bound: fmt.Sprintf("header none/0..3, <=%d rows of sep|0..3 cells, generator on/off, template name empty/set", x.Pick(4, 5))}, func(c *Chooser) {
		g := ChooseShape(c, ShapeCfg{MaxRows: x.Pick(4, 5), MaxCells: 3, Header: []int{-1, 0, 1, 2, 3}, Sep: true, HeaderLast: false})
		g.SerialTexts()
		in := &c06Input{g: g}
		in.gen = c.Bool()
		if c.Bool() {
			in.tmplName = "t"
		}
		x.Transition(1 + len(g.Rows))
		if g.Nontrivial() {
			x.Nontrivial(fmt.Sprint(g.String(), in.gen, in.tmplName))
		}
		x.State(g.ShapeKey())
		c06Check(x, c, in, nil)
	})
}
