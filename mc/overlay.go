package main

// Overlay generator for the scheduler checks (C16, C17): rewrites every
// non-test .go file of /repo's working tree so that
//   - `import "sync"` becomes the scheduler's shim (same API, every operation a scheduling point),
//   - every statement that touches a MUTABLE package-level variable (one that is
//     assigned somewhere outside init functions) is preceded by vrt.Access(id, isWrite),
// and maps the scheduler run-time in as the virtual package
// go.pennock.tech/tabular/zverif/vrt.  /repo itself is never modified.

import (
	"bytes"
	"encoding/json"
	"fmt"
	"go/ast"
	"go/parser"
	"go/printer"
	"go/token"
	"os"
	"os/exec"
	"path/filepath"
	"sort"
	"strconv"
	"strings"
)

// repoRoot: the repository under test.  Always /repo for the registered checks; an experiment may point the
// harness at a scratch copy (run.sh with VERIF_ALT_REPO builds it with a matching -modfile).
var repoRoot = func() string {
	if d := os.Getenv("VERIF_ALT_REPO"); d != "" {
		return d
	}
	return "/repo"
}()

const repoModule = "go.pennock.tech/tabular"
const vrtPath = repoModule + "/zverif/vrt"

var syncMethods = map[string]bool{"Lock": true, "Unlock": true, "RLock": true, "RUnlock": true, "TryLock": true, "Do": true, "Wait": true, "Add": true, "Done": true, "RLocker": true}

type ovFile struct {
	path string
	pkg  *ovPkg
	file *ast.File
	// import alias -> repo package import path
	repoImports map[string]string
	atomicAlias string // local name of sync/atomic in this file ("" if not imported)
}

type ovPkg struct {
	importPath string
	name       string
	vars       map[string]bool // package-level variable names
	mutable    map[string]bool // root variables assigned outside init
	refLike    map[string]bool // package-level variables that hold a map or a slice (a local copy of one is an alias, not a copy)
	atomicVar  map[string]bool // package-level variables whose declared type mentions sync/atomic
	files      []*ovFile
}

type OverlayInfo struct {
	Dir           string
	JSON          string
	JSONWithReset string
	ResetHelper   bool
	Files         int
	SyncRewrites  int
	Hooks         int
	Vars          []string
	Mutable       []string
}

type access struct {
	id    string
	root  string // pkgImportPath + "." + var
	write bool
	// atomic: 0 = plain access; 1 = atomic load, 2 = atomic store, 3 = atomic read-modify-write.  Atomic
	// operations are scheduling points that create happens-before edges, not data accesses.
	atomic int
}

// atomicKind classifies sync/atomic function and method names.
func atomicKind(name string, methodForm bool) int {
	switch {
	case strings.HasPrefix(name, "Load"):
		return 1
	case strings.HasPrefix(name, "Store"):
		return 2
	case strings.HasPrefix(name, "Swap"), strings.HasPrefix(name, "CompareAndSwap"):
		return 3
	case !methodForm && (strings.HasPrefix(name, "Add") || strings.HasPrefix(name, "And") || strings.HasPrefix(name, "Or")):
		return 3
	}
	return 0
}

func generateOverlay(dir string) (*OverlayInfo, error) {
	fset := token.NewFileSet()
	pkgs := map[string]*ovPkg{}
	var files []*ovFile
	err := filepath.Walk(repoRoot, func(p string, fi os.FileInfo, err error) error {
		if err != nil {
			return err
		}
		if fi.IsDir() {
			b := filepath.Base(p)
			if p != repoRoot && (strings.HasPrefix(b, ".") || strings.HasPrefix(b, "_") || b == "testdata" || b == "zverif") {
				return filepath.SkipDir
			}
			return nil
		}
		if !strings.HasSuffix(p, ".go") || strings.HasSuffix(p, "_test.go") {
			return nil
		}
		f, err := parser.ParseFile(fset, p, nil, parser.ParseComments)
		if err != nil {
			return err
		}
		rel, _ := filepath.Rel(repoRoot, filepath.Dir(p))
		ip := repoModule
		if rel != "." {
			ip += "/" + filepath.ToSlash(rel)
		}
		pk := pkgs[ip]
		if pk == nil {
			pk = &ovPkg{importPath: ip, name: f.Name.Name, vars: map[string]bool{}, mutable: map[string]bool{}, atomicVar: map[string]bool{}, refLike: map[string]bool{}}
			pkgs[ip] = pk
		}
		of := &ovFile{path: p, pkg: pk, file: f, repoImports: map[string]string{}}
		for _, im := range f.Imports {
			if im.Path.Value == `"sync/atomic"` {
				of.atomicAlias = "atomic"
				if im.Name != nil {
					of.atomicAlias = im.Name.Name
				}
			}
		}
		pk.files = append(pk.files, of)
		files = append(files, of)
		for _, d := range f.Decls {
			if gd, ok := d.(*ast.GenDecl); ok && gd.Tok == token.VAR {
				for _, s := range gd.Specs {
					vs := s.(*ast.ValueSpec)
					mentionsAtomic := false
					if of.atomicAlias != "" {
						for _, e := range append([]ast.Expr{vs.Type}, vs.Values...) {
							if e == nil {
								continue
							}
							ast.Inspect(e, func(n ast.Node) bool {
								if se, ok := n.(*ast.SelectorExpr); ok {
									if id, ok := se.X.(*ast.Ident); ok && id.Name == of.atomicAlias {
										mentionsAtomic = true
									}
								}
								return true
							})
						}
					}
					for i, n := range vs.Names {
						if n.Name != "_" {
							pk.vars[n.Name] = true
							if mentionsAtomic {
								pk.atomicVar[n.Name] = true
							}
							var val ast.Expr
							if i < len(vs.Values) {
								val = vs.Values[i]
							}
							if isRefLike(vs.Type, val) {
								pk.refLike[n.Name] = true
							}
						}
					}
				}
			}
		}
		return nil
	})
	if err != nil {
		return nil, err
	}
	// resolve repo imports (alias -> import path); default alias = declared package name
	for _, of := range files {
		for _, im := range of.file.Imports {
			ip, _ := strconv.Unquote(im.Path.Value)
			if pk, ok := pkgs[ip]; ok {
				alias := pk.name
				if im.Name != nil {
					alias = im.Name.Name
				}
				of.repoImports[alias] = ip
			}
		}
	}
	// pass 1: which root variables are assigned outside init?
	for _, of := range files {
		for _, d := range of.file.Decls {
			fd, ok := d.(*ast.FuncDecl)
			if !ok || fd.Body == nil || (fd.Name.Name == "init" && fd.Recv == nil) {
				continue
			}
			forEachAccess(of, pkgs, fd, func(stmt ast.Stmt, acc []access) {
				for _, a := range acc {
					if a.write {
						i := strings.LastIndex(a.root, ".")
						pkgs[a.root[:i]].mutable[a.root[i+1:]] = true
					}
				}
			}, nil)
		}
	}
	info := &OverlayInfo{Dir: dir}
	for ip, pk := range pkgs {
		for v := range pk.vars {
			info.Vars = append(info.Vars, ip+"."+v)
		}
		for v := range pk.mutable {
			info.Mutable = append(info.Mutable, ip+"."+v)
		}
	}
	sort.Strings(info.Vars)
	sort.Strings(info.Mutable)
	// pass 2: rewrite
	replace := map[string]string{}
	os.MkdirAll(dir, 0o755)
	for i, of := range files {
		changed := false
		// sync import
		for _, im := range of.file.Imports {
			if im.Path.Value == `"sync"` {
				im.Path.Value = strconv.Quote(vrtPath)
				if im.Name == nil {
					im.Name = ast.NewIdent("sync")
				}
				changed = true
				info.SyncRewrites++
			}
		}
		hooks := 0
		for _, d := range of.file.Decls {
			fd, ok := d.(*ast.FuncDecl)
			if !ok || fd.Body == nil || (fd.Name.Name == "init" && fd.Recv == nil) {
				continue
			}
			forEachAccess(of, pkgs, fd, nil, func(acc []access) []ast.Stmt {
				var out, atomics []ast.Stmt
				seen := map[string]bool{}
				for _, a := range acc {
					if a.atomic != 0 {
						key := a.id + fmt.Sprint("atomic", a.atomic)
						if !seen[key] {
							seen[key] = true
							hooks++
							atomics = append(atomics, &ast.ExprStmt{X: &ast.CallExpr{
								Fun:  &ast.SelectorExpr{X: ast.NewIdent("vrtverif"), Sel: ast.NewIdent("Atomic")},
								Args: []ast.Expr{&ast.BasicLit{Kind: token.STRING, Value: strconv.Quote(a.id)}, &ast.BasicLit{Kind: token.INT, Value: fmt.Sprint(a.atomic)}},
							}})
						}
						continue
					}
					i := strings.LastIndex(a.root, ".")
					if !pkgs[a.root[:i]].mutable[a.root[i+1:]] {
						continue
					}
					key := a.id + fmt.Sprint(a.write)
					if seen[key] {
						continue
					}
					seen[key] = true
					hooks++
					out = append(out, &ast.ExprStmt{X: &ast.CallExpr{
						Fun:  &ast.SelectorExpr{X: ast.NewIdent("vrtverif"), Sel: ast.NewIdent("Access")},
						Args: []ast.Expr{&ast.BasicLit{Kind: token.STRING, Value: strconv.Quote(a.id)}, ast.NewIdent(fmt.Sprint(a.write))},
					}})
				}
				// atomic hooks last: their happens-before bookkeeping must sit directly before the statement
				return append(out, atomics...)
			})
		}
		if hooks > 0 {
			changed = true
			info.Hooks += hooks
			addImport(of.file, "vrtverif", vrtPath)
		}
		if !changed {
			continue
		}
		var buf bytes.Buffer
		if err := printer.Fprint(&buf, fset, of.file); err != nil {
			return nil, fmt.Errorf("print %s: %v", of.path, err)
		}
		out := filepath.Join(dir, fmt.Sprintf("f%d_%s", i, filepath.Base(of.path)))
		if err := os.WriteFile(out, buf.Bytes(), 0o644); err != nil {
			return nil, err
		}
		replace[of.path] = out
		info.Files++
	}
	// the run-time as a virtual package inside the repo's module path
	rt, _ := filepath.Glob(filepath.Join(verifRoot, "mc", "_overlay", "vrt", "*.go"))
	for _, f := range rt {
		replace[filepath.Join(repoRoot, "zverif", "vrt", filepath.Base(f))] = f
	}
	b, _ := json.MarshalIndent(map[string]interface{}{"Replace": replace}, "", " ")
	info.JSON = filepath.Join(dir, "overlay.json")
	if err := os.WriteFile(info.JSON, b, 0o644); err != nil {
		return nil, err
	}
	// variant with the registry reset helper (depends on the registry's internal names; optional)
	replace[filepath.Join(repoRoot, "texttable", "decoration", "zverif_reset.go")] = filepath.Join(verifRoot, "mc", "_overlay", "decoration_reset.go.txt")
	b, _ = json.MarshalIndent(map[string]interface{}{"Replace": replace}, "", " ")
	info.JSONWithReset = filepath.Join(dir, "overlay_reset.json")
	if err := os.WriteFile(info.JSONWithReset, b, 0o644); err != nil {
		return nil, err
	}
	return info, nil
}

// isRefLike: does a package-level variable declared with this type / initial value hold a map or a slice?
// (syntactic: map and slice types, make of one, and composite literals of named types whose elements have literal keys)
func isRefLike(typ, val ast.Expr) bool {
	isRefType := func(t ast.Expr) bool {
		switch v := t.(type) {
		case *ast.MapType:
			return true
		case *ast.ArrayType:
			return v.Len == nil
		}
		return false
	}
	if typ != nil {
		return isRefType(typ)
	}
	switch v := val.(type) {
	case *ast.CompositeLit:
		if v.Type == nil {
			return false
		}
		if isRefType(v.Type) {
			return true
		}
		switch v.Type.(type) {
		case *ast.Ident, *ast.SelectorExpr:
			for _, el := range v.Elts {
				if kv, ok := el.(*ast.KeyValueExpr); ok {
					if _, lit := kv.Key.(*ast.BasicLit); lit {
						return true
					}
				}
			}
		}
	case *ast.CallExpr:
		if id, ok := v.Fun.(*ast.Ident); ok && id.Name == "make" && len(v.Args) > 0 {
			return isRefType(v.Args[0])
		}
	}
	return false
}

// lastName: the variable name an identifier or qualified identifier ends in
func lastName(e ast.Expr) string {
	switch v := e.(type) {
	case *ast.Ident:
		return v.Name
	case *ast.SelectorExpr:
		return v.Sel.Name
	}
	return ""
}

func addImport(f *ast.File, name, path string) {
	spec := &ast.ImportSpec{Name: ast.NewIdent(name), Path: &ast.BasicLit{Kind: token.STRING, Value: strconv.Quote(path)}}
	for _, d := range f.Decls {
		if gd, ok := d.(*ast.GenDecl); ok && gd.Tok == token.IMPORT {
			gd.Specs = append(gd.Specs, spec)
			if !gd.Lparen.IsValid() {
				gd.Lparen = gd.Pos()
				gd.Rparen = gd.End()
			}
			f.Imports = append(f.Imports, spec)
			return
		}
	}
	gd := &ast.GenDecl{Tok: token.IMPORT, Specs: []ast.Spec{spec}}
	f.Decls = append([]ast.Decl{gd}, f.Decls...)
	f.Imports = append(f.Imports, spec)
}

// localNames collects every identifier declared inside the function (parameters, results,
// receiver, :=, var, range, type-switch bindings): a package-level variable shadowed anywhere in
// the function is not instrumented in it.
func localNames(fd *ast.FuncDecl) map[string]bool {
	names := map[string]bool{}
	addFields := func(fl *ast.FieldList) {
		if fl == nil {
			return
		}
		for _, f := range fl.List {
			for _, n := range f.Names {
				names[n.Name] = true
			}
		}
	}
	addFields(fd.Recv)
	addFields(fd.Type.Params)
	addFields(fd.Type.Results)
	ast.Inspect(fd.Body, func(n ast.Node) bool {
		switch v := n.(type) {
		case *ast.AssignStmt:
			if v.Tok == token.DEFINE {
				for _, l := range v.Lhs {
					if id, ok := l.(*ast.Ident); ok {
						names[id.Name] = true
					}
				}
			}
		case *ast.RangeStmt:
			if v.Tok == token.DEFINE {
				for _, e := range []ast.Expr{v.Key, v.Value} {
					if id, ok := e.(*ast.Ident); ok {
						names[id.Name] = true
					}
				}
			}
		case *ast.GenDecl:
			if v.Tok == token.VAR || v.Tok == token.CONST {
				for _, s := range v.Specs {
					if vs, ok := s.(*ast.ValueSpec); ok {
						for _, n := range vs.Names {
							names[n.Name] = true
						}
					}
				}
			}
		case *ast.FuncLit:
			addFields(v.Type.Params)
			addFields(v.Type.Results)
		case *ast.TypeSwitchStmt:
			if as, ok := v.Assign.(*ast.AssignStmt); ok {
				for _, l := range as.Lhs {
					if id, ok := l.(*ast.Ident); ok {
						names[id.Name] = true
					}
				}
			}
		}
		return true
	})
	return names
}

// forEachAccess walks the statements of fd.  For every statement it computes the accesses to
// package-level variables made by the statement's own expressions (not by nested blocks).
// visit (if non-nil) is called with them; hook (if non-nil) returns statements to insert before it.
func forEachAccess(of *ovFile, pkgs map[string]*ovPkg, fd *ast.FuncDecl, visit func(ast.Stmt, []access), hook func([]access) []ast.Stmt) {
	locals := localNames(fd)
	aliasOf := map[string]ast.Expr{} // filled below, once pathOf exists
	// rootOf returns the access path of an expression rooted at a package-level variable.
	var pathOf func(e ast.Expr) (root, path string, ok bool)
	pathOf = func(e ast.Expr) (string, string, bool) {
		switch v := e.(type) {
		case *ast.Ident:
			if of.pkg.vars[v.Name] && !locals[v.Name] {
				return of.pkg.importPath + "." + v.Name, of.pkg.name + "." + v.Name, true
			}
		case *ast.SelectorExpr:
			if id, ok := v.X.(*ast.Ident); ok && !locals[id.Name] {
				if ip, isPkg := of.repoImports[id.Name]; isPkg {
					if pkgs[ip].vars[v.Sel.Name] {
						return ip + "." + v.Sel.Name, pkgs[ip].name + "." + v.Sel.Name, true
					}
					return "", "", false
				}
			}
			if r, p, ok := pathOf(v.X); ok {
				return r, p + "." + v.Sel.Name, true
			}
		case *ast.IndexExpr:
			// an element reached through a local that is a direct alias of a package-level map or slice
			if id, ok := v.X.(*ast.Ident); ok {
				if tgt, ok := aliasOf[id.Name]; ok {
					return pathOf(tgt)
				}
			}
			return pathOf(v.X)
		case *ast.ParenExpr:
			return pathOf(v.X)
		case *ast.StarExpr:
			return pathOf(v.X)
		}
		return "", "", false
	}
	// direct aliases: a local assigned exactly once in the function, from a bare package-level variable that
	// holds a map or a slice, and whose address is never taken.  Its elements ARE the package-level variable's.
	{
		assigned := map[string]int{}
		cand := map[string]ast.Expr{}
		noteLHS := func(e ast.Expr) {
			if id, ok := e.(*ast.Ident); ok {
				assigned[id.Name]++
			}
		}
		ast.Inspect(fd.Body, func(n ast.Node) bool {
			switch v := n.(type) {
			case *ast.AssignStmt:
				for i, l := range v.Lhs {
					noteLHS(l)
					id, ok := l.(*ast.Ident)
					if !ok || !locals[id.Name] || len(v.Lhs) != len(v.Rhs) || (v.Tok != token.DEFINE && v.Tok != token.ASSIGN) {
						continue
					}
					switch v.Rhs[i].(type) {
					case *ast.Ident, *ast.SelectorExpr:
						if root, _, ok := pathOf(v.Rhs[i]); ok {
							k := strings.LastIndex(root, ".")
							if pkgs[root[:k]].refLike[root[k+1:]] && root[k+1:] == lastName(v.Rhs[i]) {
								cand[id.Name] = v.Rhs[i]
							}
						}
					}
				}
			case *ast.IncDecStmt:
				noteLHS(v.X)
			case *ast.RangeStmt:
				noteLHS(v.Key)
				noteLHS(v.Value)
			case *ast.ValueSpec:
				for _, n := range v.Names {
					assigned[n.Name]++
				}
			case *ast.UnaryExpr:
				if v.Op == token.AND {
					if id, ok := v.X.(*ast.Ident); ok {
						assigned[id.Name] += 2
					}
				}
			}
			return true
		})
		for name, tgt := range cand {
			if assigned[name] == 1 {
				aliasOf[name] = tgt
			}
		}
	}
	var collect func(e ast.Expr, write bool, acc *[]access)
	collect = func(e ast.Expr, write bool, acc *[]access) {
		if e == nil {
			return
		}
		switch v := e.(type) {
		case *ast.FuncLit:
			return // its body is instrumented as its own block
		case *ast.CallExpr:
			if sel, ok := v.Fun.(*ast.SelectorExpr); ok {
				// sync/atomic function on the address of (a field of) a package-level variable
				if id, isId := sel.X.(*ast.Ident); isId && of.atomicAlias != "" && id.Name == of.atomicAlias && !locals[id.Name] && len(v.Args) > 0 {
					if k := atomicKind(sel.Sel.Name, false); k != 0 {
						if ue, isAddr := v.Args[0].(*ast.UnaryExpr); isAddr && ue.Op == token.AND {
							if root, path, isVar := pathOf(ue.X); isVar {
								for _, a := range v.Args[1:] {
									collect(a, false, acc)
								}
								*acc = append(*acc, access{id: path, root: root, atomic: k})
								return
							}
						}
					}
				}
				// method of an atomic type held in (a field of) a package-level variable
				if root, path, isVar := pathOf(sel.X); isVar {
					k := atomicKind(sel.Sel.Name, true)
					i := strings.LastIndex(root, ".")
					if k == 0 && pkgs[root[:i]].atomicVar[root[i+1:]] {
						k = atomicKind(sel.Sel.Name, false)
					}
					if k != 0 {
						for _, a := range v.Args {
							collect(a, false, acc)
						}
						*acc = append(*acc, access{id: path, root: root, atomic: k})
						return
					}
				}
				if _, _, isVar := pathOf(sel.X); isVar && syncMethods[sel.Sel.Name] {
					// a synchronisation operation on (a field of) a package-level variable is not a data access
					for _, a := range v.Args {
						collect(a, false, acc)
					}
					return
				}
			}
			if id, ok := v.Fun.(*ast.Ident); ok && id.Name == "delete" && len(v.Args) == 2 {
				if aid, ok := v.Args[0].(*ast.Ident); ok {
					if tgt, ok := aliasOf[aid.Name]; ok {
						collect(tgt, true, acc)
					}
				}
				collect(v.Args[0], true, acc)
				collect(v.Args[1], false, acc)
				return
			}
			collect(v.Fun, false, acc)
			for _, a := range v.Args {
				collect(a, false, acc)
			}
			return
		}
		if root, path, ok := pathOf(e); ok {
			*acc = append(*acc, access{id: path, root: root, write: write})
			// index expressions inside the path are reads of their own
			ast.Inspect(e, func(n ast.Node) bool {
				if ix, ok := n.(*ast.IndexExpr); ok {
					collect(ix.Index, false, acc)
				}
				return true
			})
			return
		}
		// generic descent over sub-expressions
		switch v := e.(type) {
		case *ast.BinaryExpr:
			collect(v.X, false, acc)
			collect(v.Y, false, acc)
		case *ast.UnaryExpr:
			collect(v.X, false, acc)
		case *ast.ParenExpr:
			collect(v.X, write, acc)
		case *ast.StarExpr:
			collect(v.X, false, acc)
		case *ast.SelectorExpr:
			collect(v.X, false, acc)
		case *ast.IndexExpr:
			collect(v.X, write, acc)
			collect(v.Index, false, acc)
		case *ast.SliceExpr:
			collect(v.X, false, acc)
			collect(v.Low, false, acc)
			collect(v.High, false, acc)
			collect(v.Max, false, acc)
		case *ast.TypeAssertExpr:
			collect(v.X, false, acc)
		case *ast.CompositeLit:
			for _, el := range v.Elts {
				collect(el, false, acc)
			}
		case *ast.KeyValueExpr:
			collect(v.Value, false, acc)
		}
	}
	var stmtAccesses func(s ast.Stmt) []access
	stmtAccesses = func(s ast.Stmt) []access {
		var acc []access
		switch v := s.(type) {
		case *ast.ExprStmt:
			collect(v.X, false, &acc)
		case *ast.AssignStmt:
			for _, l := range v.Lhs {
				collect(l, true, &acc)
				if v.Tok != token.ASSIGN && v.Tok != token.DEFINE {
					collect(l, false, &acc) // op-assign also reads
				}
			}
			for _, r := range v.Rhs {
				collect(r, false, &acc)
			}
		case *ast.IncDecStmt:
			collect(v.X, true, &acc)
			collect(v.X, false, &acc)
		case *ast.ReturnStmt:
			for _, r := range v.Results {
				collect(r, false, &acc)
			}
		case *ast.GoStmt:
			collect(v.Call, false, &acc)
		case *ast.DeferStmt:
			collect(v.Call, false, &acc)
		case *ast.SendStmt:
			collect(v.Chan, false, &acc)
			collect(v.Value, false, &acc)
		case *ast.DeclStmt:
			if gd, ok := v.Decl.(*ast.GenDecl); ok {
				for _, sp := range gd.Specs {
					if vs, ok := sp.(*ast.ValueSpec); ok {
						for _, e := range vs.Values {
							collect(e, false, &acc)
						}
					}
				}
			}
		case *ast.IfStmt:
			if v.Init != nil {
				acc = append(acc, stmtAccesses(v.Init)...)
			}
			collect(v.Cond, false, &acc)
			// else-if conditions are evaluated in the same statement chain
			for e := v.Else; e != nil; {
				if ei, ok := e.(*ast.IfStmt); ok {
					if ei.Init != nil {
						acc = append(acc, stmtAccesses(ei.Init)...)
					}
					collect(ei.Cond, false, &acc)
					e = ei.Else
				} else {
					break
				}
			}
		case *ast.ForStmt:
			if v.Init != nil {
				acc = append(acc, stmtAccesses(v.Init)...)
			}
			collect(v.Cond, false, &acc)
			if v.Post != nil {
				acc = append(acc, stmtAccesses(v.Post)...)
			}
		case *ast.RangeStmt:
			collect(v.X, false, &acc)
			if v.Tok == token.ASSIGN {
				collect(v.Key, true, &acc)
				collect(v.Value, true, &acc)
			}
		case *ast.SwitchStmt:
			if v.Init != nil {
				acc = append(acc, stmtAccesses(v.Init)...)
			}
			collect(v.Tag, false, &acc)
			for _, cc := range v.Body.List {
				for _, e := range cc.(*ast.CaseClause).List {
					collect(e, false, &acc)
				}
			}
		case *ast.TypeSwitchStmt:
			if v.Init != nil {
				acc = append(acc, stmtAccesses(v.Init)...)
			}
			switch a := v.Assign.(type) {
			case *ast.AssignStmt:
				for _, r := range a.Rhs {
					collect(r, false, &acc)
				}
			case *ast.ExprStmt:
				collect(a.X, false, &acc)
			}
		case *ast.LabeledStmt:
			return stmtAccesses(v.Stmt)
		}
		return acc
	}
	var doBlock func(list []ast.Stmt) []ast.Stmt
	var doNested func(s ast.Stmt)
	doFuncLits := func(n ast.Node) {
		ast.Inspect(n, func(m ast.Node) bool {
			if fl, ok := m.(*ast.FuncLit); ok {
				fl.Body.List = doBlock(fl.Body.List)
				return false
			}
			// do not descend into nested statements' blocks here: they are handled by doNested
			if _, ok := m.(*ast.BlockStmt); ok {
				return false
			}
			return true
		})
	}
	doNested = func(s ast.Stmt) {
		switch v := s.(type) {
		case *ast.BlockStmt:
			v.List = doBlock(v.List)
		case *ast.IfStmt:
			v.Body.List = doBlock(v.Body.List)
			if v.Else != nil {
				doNested(v.Else)
			}
		case *ast.ForStmt:
			v.Body.List = doBlock(v.Body.List)
		case *ast.RangeStmt:
			v.Body.List = doBlock(v.Body.List)
		case *ast.SwitchStmt:
			for _, cc := range v.Body.List {
				c := cc.(*ast.CaseClause)
				c.Body = doBlock(c.Body)
			}
		case *ast.TypeSwitchStmt:
			for _, cc := range v.Body.List {
				c := cc.(*ast.CaseClause)
				c.Body = doBlock(c.Body)
			}
		case *ast.SelectStmt:
			for _, cc := range v.Body.List {
				c := cc.(*ast.CommClause)
				c.Body = doBlock(c.Body)
			}
		case *ast.LabeledStmt:
			doNested(v.Stmt)
		}
	}
	doBlock = func(list []ast.Stmt) []ast.Stmt {
		var out []ast.Stmt
		for _, s := range list {
			acc := stmtAccesses(s)
			if visit != nil {
				visit(s, acc)
			}
			if hook != nil && len(acc) > 0 {
				out = append(out, hook(acc)...)
			}
			doFuncLits(s)
			doNested(s)
			out = append(out, s)
		}
		return out
	}
	fd.Body.List = doBlock(fd.Body.List)
}

// buildOverlayBinary generates the overlay from /repo's working tree and builds the scheduler
// variant of the harness with it.
func buildOverlayBinary(work string, race bool) (exe string, info *OverlayInfo, err error) {
	info, err = generateOverlay(filepath.Join(work, "overlay"))
	if err != nil {
		return "", nil, err
	}
	exe = filepath.Join(work, "mcsch")
	if race {
		exe = filepath.Join(work, "mcrace")
	}
	var out []byte
	var berr error
	for _, ov := range []string{info.JSONWithReset, info.JSON} {
		args := []string{"build", "-tags", "verifsch", "-overlay", ov, "-o", exe}
		if race {
			args = append(args, "-race")
		}
		if mf := os.Getenv("VERIF_ALT_MODFILE"); mf != "" {
			args = append(args, "-modfile", mf)
		}
		args = append(args, ".")
		cmd := exec.Command("go", args...)
		cmd.Dir = filepath.Join(verifRoot, "mc")
		cmd.Env = append(os.Environ(), "GOFLAGS=-mod=mod", "GOPROXY=off", "GOSUMDB=off", "GOTOOLCHAIN=local")
		out, berr = cmd.CombinedOutput()
		if berr == nil {
			info.ResetHelper = ov == info.JSONWithReset
			if info.ResetHelper {
				// the helper reaches into the registry's internals; a refactored registry (e.g. one that keeps a
				// cached listing next to its map) can make it unsound.  Self-test it; fall back to unique names.
				if st := exec.Command(exe, "selftest-reset"); st.Run() != nil {
					info.ResetHelper = false
					continue
				}
			}
			return exe, info, nil
		}
	}
	if berr == nil {
		return exe, info, nil
	}
	return "", info, fmt.Errorf("harness: overlay build failed: %v\n%s", berr, out)
}

func init() {
	// prebuild warms the build cache for the overlay and -race variants (setup_cmd)
	extraCommands["prebuild"] = func(args []string) {
		work := filepath.Join(outRoot(), ".work", fmt.Sprintf("prebuild-%d", os.Getpid()))
		defer os.RemoveAll(work)
		os.MkdirAll(work, 0o755)
		for _, race := range []bool{false, true} {
			if _, _, err := buildOverlayBinary(work, race); err != nil {
				fmt.Fprintln(os.Stderr, err)
				os.Exit(2)
			}
		}
		fmt.Println("prebuilt overlay and -race variants")
	}
	extraCommands["overlay"] = func(args []string) {
		dir := filepath.Join(verifRoot, ".work", "overlay-debug")
		if len(args) > 0 {
			dir = args[0]
		}
		info, err := generateOverlay(dir)
		if err != nil {
			fmt.Fprintln(os.Stderr, "harness:", err)
			os.Exit(2)
		}
		b, _ := json.MarshalIndent(info, "", " ")
		fmt.Println(string(b))
	}
}
