package main

import (
	"fmt"
	"reflect"
	"time"

	"go.pennock.tech/tabular"
	"go.pennock.tech/tabular/csv"
)

// C11 — errors accumulate in the table: none lost, none duplicated, none nil.

func init() {
	register(&Check{
		ID:        "C11",
		Level:     "model_checking",
		Technique: "bounded exhaustive exploration of error-container operation sequences and of table-building histories with failing callbacks, on the real code, compared after every step with a reference model of who holds which error",
		Rule: "family container: all sequences of {AddError(e), AddError(nil), AddErrorList(l) for l in nil,[],[e],[nil],[e,nil],[nil,e],[e,nil,e'], each followed or not by mutation of l} to depth 4 (thorough 6) on a constructed, a zero-value and a nil container, starting empty or with 9, 10 or 11 errors already held (initial capacity 10); " +
			"family routing: histories build(<=2 ops) ; register a failing callback (returning a serial-carrying error or the zero value of a value-type error) on any supported (owner kind x time x target) and/or record a direct error on the table/a row ; build(<=2 ops) ; (thorough: a late registration if none was made before) ; 0-2 render passes (InvokeRenderCallbacks or a CSV render) - " +
			"build ops include rows built detached then attached, Row.Add before and after attach, separators and adding a cell to a separator; the oracle runs after every step; " +
			"non-trivial = a history in which at least one error was raised; distinct by reference state (who holds which serials)",
		Assumptions: []string{"relative order between errors of different sources is not asserted", "errors held by rows that are never attached are only required to be reported by that row",
			"callback errors are identified by a serial recorded by the failing callback itself at invocation time (which invocations happen is C13's business)"},
		QuickBudget: 120 * time.Second, ThoroughBudget: 20 * time.Minute,
		Run: runC11,
	})
}

// zeroErr is an error whose only value is the zero value of its (non-pointer) type.
type zeroErr struct{}

func (zeroErr) Error() string { return "zero-valued error" }

type serialErr struct {
	serial int
	source string
}

func (e serialErr) Error() string { return fmt.Sprintf("E%d[%s]", e.serial, e.source) }

func c11CountZero(errs []error) int {
	n := 0
	for _, e := range errs {
		if _, ok := e.(zeroErr); ok {
			n++
		}
	}
	return n
}

func c11ViewErrors(x *X, errs []error, tags []string, who string) (serials []int, others int) {
	x.Clause("C11.nil_or_nonempty")
	if errs != nil && len(errs) == 0 {
		x.Fail("C11.nil_or_nonempty", tags, "%s.Errors() returned an empty non-nil list", who)
	}
	x.Clause("C11.no_nil")
	for i, e := range errs {
		if e == nil {
			x.Fail("C11.no_nil", tags, "%s.Errors()[%d] is nil (list %v)", who, i, errs)
		}
		if se, ok := e.(serialErr); ok {
			serials = append(serials, se.serial)
		} else if _, isZero := e.(zeroErr); !isZero {
			others++
		}
	}
	return
}

func runC11(x *X) {
	// ---- (A) containers
	depth := x.Pick(4, 6)
	mkLists := func(next func() error) [][]error {
		return [][]error{nil, {}, {next()}, {nil}, {next(), nil}, {nil, next()}, {next(), nil, next()}, {nil, nil}}
	}
	listNames := []string{"nil", "[]", "[e]", "[nil]", "[e,nil]", "[nil,e]", "[e,nil,e']", "[nil,nil]"}
	x.Explore("container", ExploreOpts{ShardDepth: 2, Bound: fmt.Sprintf("3 containers x all op sequences of depth <=%d", depth)}, func(c *Chooser) {
		kind := c.Choose(3)
		var ec *tabular.ErrorContainer
		kname := ""
		switch kind {
		case 0:
			ec, kname = tabular.NewErrorContainer(), "NewErrorContainer()"
		case 1:
			ec, kname = &tabular.ErrorContainer{}, "&ErrorContainer{}"
		case 2:
			ec, kname = nil, "(*ErrorContainer)(nil)"
		}
		c.Logf("ec := %s", kname)
		tags := []string{"container:" + kname}
		serial := 0
		next := func() error { serial++; return serialErr{serial, "direct"} }
		var model []int
		raised := false
		// optionally start close to the container's initial capacity of 10 errors
		if pre := []int{0, 9, 10, 11}[c.Choose(4)]; pre > 0 {
			c.Logf("%d x ec.AddError(e)", pre)
			for i := 0; i < pre; i++ {
				e := next()
				ec.AddError(e)
				if ec != nil {
					model = append(model, serial)
				}
			}
			tags = append(tags, "ten_or_more_errors")
		}
		for step := 0; step < depth; step++ {
			op := c.Choose(4)
			if op == 0 {
				break
			}
			x.Transition(1)
			stepTags := tags
			switch op {
			case 1:
				e := next()
				c.Logf("ec.AddError(E%d)", serial)
				if p, val, site := Safe(func() { ec.AddError(e) }); p {
					x.FailSite("C11.no_panic", append(stepTags, "panic"), site, "AddError panicked on %s: %v", kname, val)
				}
				if ec != nil {
					model = append(model, serial)
				}
				raised = true
			case 2:
				c.Logf("ec.AddError(nil)")
				if p, val, site := Safe(func() { ec.AddError(nil) }); p {
					x.FailSite("C11.no_panic", append(stepTags, "panic"), site, "AddError(nil) panicked on %s: %v", kname, val)
				}
			case 3:
				lists := mkLists(next)
				li := c.Choose(len(lists))
				l := lists[li]
				mutate := false
				if len(l) > 0 {
					mutate = c.Bool()
				}
				c.Logf("l := %s %v; ec.AddErrorList(l)", listNames[li], l)
				stepTags = append(stepTags, "list:"+listNames[li])
				if len(model) == 0 && kind == 1 {
					stepTags = append(stepTags, "zero_value_container_adopts_list")
				}
				if kind == 2 {
					stepTags = append(stepTags, "nil_container_add_list")
				}
				if p, val, site := Safe(func() { ec.AddErrorList(l) }); p {
					if !x.FailSite("C11.no_panic", append(stepTags, "panic"), site, "AddErrorList(%s) panicked on %s: %v", listNames[li], kname, val) {
						return
					}
					return
				}
				for _, e := range l {
					if e != nil {
						raised = true
						if ec != nil {
							model = append(model, e.(serialErr).serial)
						}
					}
				}
				if mutate {
					c.Logf("for i := range l { l[i] = errors.New(\"intruder\") }   // caller reuses its slice")
					for i := range l {
						l[i] = fmt.Errorf("intruder")
					}
					stepTags = append(stepTags, "caller_mutates_list_afterwards")
				}
			}
			var errs []error
			if p, val, site := Safe(func() { errs = ec.Errors() }); p {
				x.FailSite("C11.no_panic", append(stepTags, "panic"), site, "Errors() panicked on %s: %v", kname, val)
			}
			got, others := c11ViewErrors(x, errs, stepTags, kname)
			x.Clause("C11.container_contents")
			if others != 0 || fmt.Sprint(got) != fmt.Sprint(model) {
				x.Fail("C11.container_contents", stepTags, "%s.Errors() = %v, want exactly the non-nil errors added so far, in order: serials %v", kname, errs, model)
			}
		}
		x.State(fmt.Sprint(kind, model))
		if raised {
			x.Nontrivial(fmt.Sprint(kind, model, c.path))
		}
	})

	// ---- (B) routing through rows, tables and callbacks
	type regOpt struct {
		owner  string // table | col0 | col1 | detached | attached | cell
		target string
		tg     int
		when   string
		wn     int
	}
	var regs []regOpt
	owners := map[string][]string{"table": {"ITSELF", "CELL", "ROW"}, "col0": {"ITSELF", "CELL"}, "col1": {"ITSELF", "CELL"}, "detached": {"ITSELF", "CELL"}, "attached": {"ITSELF", "CELL"}, "cell": {"ITSELF"}}
	for _, o := range []string{"table", "col0", "col1", "detached", "attached", "cell"} {
		for _, tgt := range owners[o] {
			for wi, w := range []string{"ADD", "PRECELL", "RENDER", "POSTCELL"} {
				regs = append(regs, regOpt{o, tgt, map[string]int{"ITSELF": 0, "CELL": 1, "ROW": 2}[tgt], w, wi})
			}
		}
	}
	cfg := &BuildCfg{Counts: []int{0, 1, 2}, MaxDetached: 1, AllowSepAdd: true}
	x.Explore("routing", ExploreOpts{ShardDepth: 3, Bound: fmt.Sprintf("build<=2 ; registration(%d combos)/direct error ; build<=2 ; optional 2nd registration ; 0-2 render passes", len(regs))}, func(c *Chooser) {
		b := NewBuilder(cfg)
		st := &c11State{x: x, c: c, b: b, pending: map[*RefRow][]int{}, pendingZero: map[*RefRow]int{}}
		buildPhase := func(max int) bool {
			for i := 0; i < max; i++ {
				op := b.Step(c, true)
				if op == "" {
					return true
				}
				x.Transition(1)
				st.afterBuildOp(op)
				if !st.check("after " + op) {
					return false
				}
			}
			return true
		}
		if !buildPhase(2) {
			return
		}
		// registration / direct error phase
		st.mutatePhase(len(regs), func(i int) { r := regs[i]; st.register(r.owner, r.tg, r.target, r.wn, r.when) })
		if !st.check("after registration phase") {
			return
		}
		if !buildPhase(2) {
			return
		}
		if x.Thorough() && st.nreg == 0 {
			st.mutatePhase(len(regs), func(i int) { r := regs[i]; st.register(r.owner, r.tg, r.target, r.wn, r.when) })
			if !st.check("after second registration phase") {
				return
			}
		}
		passes := c.Choose(4) // 0, 1, 2 InvokeRenderCallbacks, 3 = one csv render
		for p := 0; p < passes && p < 2; p++ {
			x.Transition(1)
			if passes == 3 {
				c.Logf("csv.Wrap(t).Render()")
				Safe(func() { csv.Wrap(b.T).Render() })
			} else {
				c.Logf("t.InvokeRenderCallbacks()")
				if pn, val, site := Safe(func() { b.T.InvokeRenderCallbacks() }); pn {
					x.FailSite("C11.no_panic", append(st.tags(), "panic"), site, "InvokeRenderCallbacks panicked: %v", val)
					return
				}
			}
			if !st.check("after render pass") {
				return
			}
			if passes == 3 {
				break
			}
		}
		x.State(st.key())
		if st.serial > 0 || b.SepAdds > 0 {
			x.Nontrivial(st.key() + b.Key())
		}
	})
	runC11Equal(x)
	runC11Neighbours(x)
}

type c11State struct {
	x           *X
	c           *Chooser
	b           *Builder
	serial      int
	table       []int             // serials that must be in the table's list
	pending     map[*RefRow][]int // serials held by detached rows
	nreg        int
	regDesc     []string
	extra       []string
	zeroTable   int
	pendingZero map[*RefRow]int
	midRound    string // first mid-round visibility problem seen by a callback
}

func (s *c11State) tags() []string {
	t := append(s.b.Tags(), s.extra...)
	if s.b.SepAdds > 0 {
		t = append(t, "separator_row_misuse")
	}
	return t
}

func (s *c11State) key() string {
	var p []string
	for _, r := range s.b.Detached {
		p = append(p, fmt.Sprint(s.pending[r]))
	}
	return fmt.Sprint(s.table, p, s.b.SepAdds, s.regDesc)
}

// raise is called by failing callbacks at invocation time.
func (s *c11State) raise(source string) error {
	s.serial++
	if r := s.b.CurDetached; r != nil && !r.Attached {
		s.pending[r] = append(s.pending[r], s.serial)
		s.extra = appendUnique(s.extra, "callback_error_on_detached_row")
	} else {
		s.table = append(s.table, s.serial)
	}
	return serialErr{s.serial, source}
}

func appendUnique(l []string, s string) []string {
	for _, e := range l {
		if e == s {
			return l
		}
	}
	return append(l, s)
}

type c11CB struct {
	s    *c11State
	name string
	zero bool // return the zero value of a value-type error instead of a serial-carrying one
	// direct: instead of returning the error, record it with AddError on the row/table the callback was handed
	direct bool
}

func (cb *c11CB) UpdateProperties(po tabular.PropertyOwner) error {
	// at any moment a callback runs, every error raised so far on the table or an attached row is already on record
	// (a later callback of the same round may look at the list, or fail hard)
	if s := cb.s; s.midRound == "" && len(s.table) > 0 {
		have := map[int]bool{}
		for _, e := range s.b.T.Errors() {
			if se, ok := e.(serialErr); ok {
				have[se.serial] = true
			}
		}
		for _, w := range s.table {
			if !have[w] {
				s.midRound = fmt.Sprintf("when callback %s was invoked, error E%d (raised earlier on the table or an attached row) was not in table.Errors() yet", cb.name, w)
				break
			}
		}
	}
	if cb.direct {
		switch o := po.(type) {
		case *tabular.Row:
			cb.s.extra = appendUnique(cb.s.extra, "callback_calls_AddError_on_its_row")
			o.AddError(cb.s.raise(cb.name))
			return nil
		case *tabular.ATable:
			cb.s.extra = appendUnique(cb.s.extra, "callback_calls_AddError_on_its_table")
			o.AddError(cb.s.raise(cb.name))
			return nil
		}
	}
	if cb.zero {
		s := cb.s
		if r := s.b.CurDetached; r != nil && !r.Attached {
			s.pendingZero[r]++
		} else {
			s.zeroTable++
		}
		s.extra = appendUnique(s.extra, "zero_valued_error_value")
		return zeroErr{}
	}
	return cb.s.raise(cb.name)
}

// afterBuildOp moves pending errors of rows that have just been attached into the table's expectation.
func (s *c11State) afterBuildOp(op string) {
	for r, n := range s.pendingZero {
		if r.Attached && n > 0 {
			s.zeroTable += n
			delete(s.pendingZero, r)
		}
	}
	for r, p := range s.pending {
		if r.Attached && len(p) > 0 {
			// errors recorded before the row joined: now the table's; they keep their own order.
			s.table = append(s.table, p...)
			delete(s.pending, r)
			s.extra = appendUnique(s.extra, "row_with_errors_attached")
		}
	}
}

func (s *c11State) mutatePhase(nregs int, doReg func(i int)) {
	c, b := s.c, s.b
	// choice: 0 nothing, 1 direct error on table, 2.. direct error on a row (attached/detached), then registrations
	var rows []*RefRow
	rows = append(rows, b.Rows...)
	rows = append(rows, b.Detached...)
	k := c.Choose(2 + len(rows) + nregs)
	switch {
	case k == 0:
		return
	case k == 1:
		s.serial++
		c.Logf("t.AddError(E%d)", s.serial)
		b.T.AddError(serialErr{s.serial, "direct-table"})
		s.table = append(s.table, s.serial)
	case k < 2+len(rows):
		r := rows[k-2]
		s.serial++
		if r.Attached {
			c.Logf("attached row %v .AddError(E%d)", rowIndex(b, r), s.serial)
			s.table = append(s.table, s.serial)
			if r.Sep {
				s.extra = appendUnique(s.extra, "direct_error_on_separator_row")
			}
		} else {
			c.Logf("detached row.AddError(E%d)", s.serial)
			s.pending[r] = append(s.pending[r], s.serial)
		}
		r.Ptr.AddError(serialErr{s.serial, "direct-row"})
	default:
		doReg(k - 2 - len(rows))
	}
	s.x.Transition(1)
}

func rowIndex(b *Builder, r *RefRow) int {
	for i, q := range b.Rows {
		if q == r {
			return i
		}
	}
	return -1
}

func (s *c11State) register(owner string, tg int, target string, wn int, when string) {
	b, c := s.b, s.c
	var po tabular.PropertyOwner
	switch owner {
	case "table":
		po = b.T
		if at, ok := b.T.(*tabular.ATable); ok {
			po = at
		}
	case "col0":
		po = b.T.Column(0)
	case "col1":
		if cp := b.T.Column(1); cp != nil {
			po = cp
		}
	case "detached":
		if len(b.Detached) > 0 {
			po = b.Detached[0].Ptr
		}
	case "attached":
		for _, r := range b.Rows {
			if !r.Sep {
				po = r.Ptr
				break
			}
		}
	case "cell":
		for i, r := range b.Rows {
			if !r.Sep && len(r.Cells) > 0 {
				if cp, err := b.T.CellAt(tabular.CellLocation{Row: i + 1, Column: 1}); err == nil {
					po = cp
				}
				break
			}
		}
	}
	if po == nil || isNilPO(po) {
		c.Logf("(no %s exists to register on)", owner)
		return
	}
	name := fmt.Sprintf("cb%d:%s/%s/%s", s.nreg+1, owner, when, target)
	c.Logf("t.RegisterPropertyCallback(%s, %s, %s, failing %s)", owner, when, target, name)
	variant := c.Choose(3)
	zero, direct := variant == 1, variant == 2
	if zero {
		name += "/zero-valued-error"
	}
	if direct {
		name += "/records-it-with-AddError-on-what-it-was-handed"
	}
	via := b.T
	if owner == "detached" && c.Bool() {
		// a detached row belongs to no table yet: the registration may just as well be made through another table
		// (a builder or template table); the callbacks stay with the row
		via = tabular.New()
		name += "/registered-through-another-table"
		s.extra = appendUnique(s.extra, "registered_through_another_table")
	}
	err := registerCB(via, po, wn, tg, &c11CB{s, name, zero, direct})
	if err != nil {
		c.Logf("  -> refused: %v", err)
		return
	}
	s.nreg++
	s.regDesc = append(s.regDesc, name)
	s.extra = appendUnique(s.extra, "failing_callback:"+owner+"/"+when+"/"+target)
	// optionally a second failing callback on the very same slot: one invocation round then raises two errors
	if c.Bool() {
		name2 := name + "#2"
		c.Logf("t.RegisterPropertyCallback(%s, %s, %s, failing %s)   // same slot again", owner, when, target, name2)
		if err := registerCB(via, po, wn, tg, &c11CB{s, name2, zero, direct}); err == nil {
			s.regDesc = append(s.regDesc, name2)
			s.extra = appendUnique(s.extra, "two_failing_callbacks_on_one_slot")
		}
	}
}

func (s *c11State) check(when string) bool {
	x, b := s.x, s.b
	tags := append(s.tags(), "when:"+when)
	x.Clause("C11.reported_once")
	if s.midRound != "" {
		x.Fail("C11.reported_once", append(tags, "lost", "not_yet_on_record_when_the_next_callback_ran"), "%s: %s; registrations %v", when, s.midRound, s.regDesc)
		return false
	}
	var errs []error
	if p, val, site := Safe(func() { errs = b.T.Errors() }); p {
		x.FailSite("C11.no_panic", append(tags, "panic"), site, "table.Errors() panicked: %v", val)
		return false
	}
	got, others := c11ViewErrors(x, errs, tags, "table")
	x.Clause("C11.reported_once")
	count := map[int]int{}
	for _, g := range got {
		count[g]++
	}
	for _, w := range s.table {
		if count[w] != 1 {
			what := "lost"
			if count[w] > 1 {
				what = "duplicated"
			}
			x.Fail("C11.reported_once", append(tags, what), "%s: error E%d is %s: it occurs %d times in table.Errors()=%v; expected serials %v; registrations %v; table %s", when, w, what, count[w], errs, s.table, s.regDesc, b.Key())
			return false
		}
	}
	if len(got) != len(s.table) {
		x.Fail("C11.reported_once", append(tags, "unexpected"), "%s: table.Errors()=%v has serials %v, expected exactly %v", when, errs, got, s.table)
		return false
	}
	x.Clause("C11.reported_once")
	if z := c11CountZero(errs); z != s.zeroTable {
		what := "lost"
		if z > s.zeroTable {
			what = "duplicated"
		}
		x.Fail("C11.reported_once", append(tags, what), "%s: callbacks returned %d zero-valued errors (a value-type error whose value is the zero value) that belong to the table, table.Errors() holds %d: %v; registrations %v", when, s.zeroTable, z, errs, s.regDesc)
		return false
	}
	x.Clause("C11.misuse_reported")
	if others != b.SepAdds {
		what := "lost"
		if others > b.SepAdds {
			what = "duplicated"
		}
		x.Fail("C11.reported_once", append(tags, what, "misuse_error"), "%s: %d cells were added to separator rows, but table.Errors() holds %d misuse errors: %v", when, b.SepAdds, others, errs)
		return false
	}
	// same source in order of occurrence
	x.Clause("C11.source_order")
	last := map[string]int{}
	for _, e := range errs {
		if se, ok := e.(serialErr); ok {
			if se.serial < last[se.source] {
				x.Fail("C11.source_order", tags, "%s: errors of source %s are out of order in %v", when, se.source, errs)
				return false
			}
			last[se.source] = se.serial
		}
	}
	// rows
	x.Clause("C11.row_view")
	for i, r := range b.Rows {
		if r.Sep {
			continue
		}
		re := r.Ptr.Errors()
		if fmt.Sprint(re) != fmt.Sprint(errs) {
			x.Fail("C11.row_view", tags, "%s: attached row %d reports %v, the table reports %v", when, i+1, re, errs)
			return false
		}
	}
	for _, r := range b.Detached {
		re := r.Ptr.Errors()
		rg, _ := c11ViewErrors(x, re, tags, "detached row")
		if fmt.Sprint(rg) != fmt.Sprint(s.pending[r]) && !(len(rg) == 0 && len(s.pending[r]) == 0) {
			what := "lost"
			if len(rg) > len(s.pending[r]) {
				what = "duplicated"
			}
			x.Fail("C11.reported_once", append(tags, what, "detached_row"), "%s: detached row reports %v, it was given exactly serials %v", when, re, s.pending[r])
			return false
		}
	}
	return true
}

func isNilPO(po tabular.PropertyOwner) bool {
	v := reflect.ValueOf(po)
	return !v.IsValid() || (v.Kind() == reflect.Ptr && v.IsNil())
}
