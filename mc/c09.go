package main

import (
	"fmt"
	"io"
	"strings"
	"time"

	"go.pennock.tech/tabular"
	"go.pennock.tech/tabular/csv"
	thtml "go.pennock.tech/tabular/html"
	tjson "go.pennock.tech/tabular/json"
	"go.pennock.tech/tabular/markdown"
	"go.pennock.tech/tabular/texttable"
)

// C09 — every renderer is total: no panic, failure is an error with no text.

func init() {
	register(&Check{
		ID:        "C09",
		Level:     "model_checking",
		Technique: "bounded exhaustive exploration of table-building sequences; after every prefix every renderer/style/entry point is run on the real table under recover()",
		Rule: "family lifecycle: one table with size-declaring items and long-lived wrappers of every renderer, every sequence of <=4 (thorough 5) in-place modifications (items mutated to more/fewer lines, other widths, hostile or empty text + Update; headers replaced incl. duplicates; rows grown), render-all and failed RenderTo; other families: all build sequences (AddHeaders/AddRowItems with 0,1,2,11 cells, separators, AppendNewRow, detached rows, Row.Add before and after attach) with cells filled from a 9-item pool (6 of them in quick) " +
			"(plain, empty, two-line, nil, declared height below/above the line count, declared width 0, negative sizes, empty text with declared width) to depth 3 (quick; depth 4 plain-items) / 4 and 6 (thorough), " +
			"plus every anomalous 2-op shape appended after every prefix of a 12-op rectangular build; after EVERY prefix each of ~30 render targets (5 renderers x wrapper method/package function/auto style, every registered decoration, a custom and an unknown one) runs Render and RenderTo; " +
			"non-trivial = state with a zero-cell/ragged/post-attach row, separator, empty header or an item whose declared size disagrees with its text; distinct by reference state incl. fills",
		Assumptions: []string{
			"items are text-like (strings, nil, Stringers with optional size overrides); the 'random longer sequences' half of the quantifier is replaced by systematic long families (sampling is another technique)",
			"nothing about output content is asserted here (C03-C08 do that)",
		},
		QuickBudget:    150 * time.Second,
		ThoroughBudget: 25 * time.Minute,
		Run:            runC09,
	})
}

func runC09(x *X) {
	targets := allTargets()
	pool := itemPool
	if !x.Thorough() {
		pool = []PoolItem{itemPool[0], itemPool[1], itemPool[2], itemPool[4], itemPool[6], itemPool[7]}
	}
	full := &BuildCfg{Counts: []int{0, 1, 2, 11}, MaxDetached: 1, Items: PoolFill(pool)}
	plain := &BuildCfg{Counts: []int{0, 1, 2}, MaxDetached: 1, Items: PoolFill([]PoolItem{poolPlain})}
	type fam struct {
		name  string
		cfg   *BuildCfg
		depth int
	}
	fams := []fam{{"build+render", full, x.Pick(3, 4)}, {"build+render-plain", plain, x.Pick(4, 6)}}
	for _, f := range fams {
		f := f
		x.Explore(f.name, ExploreOpts{ShardDepth: 2, Bound: fmt.Sprintf("depth<=%d, %d render targets after every prefix", f.depth, len(targets))}, func(c *Chooser) {
			b := NewBuilder(f.cfg)
			for step := 0; step < f.depth; step++ {
				op := b.Step(c, step > 0)
				if op == "" {
					break
				}
				x.Transition(1)
			}
			// render only the final state of this execution: every prefix is itself an execution (stop choice)
			c09RenderAll(x, c, b, targets)
		})
	}
	// lifecycle: long-lived wrappers of every renderer on one table that is modified in place between renders
	ldepth := x.Pick(4, 5)
	lops := lifeOps(false, false)
	x.Explore("lifecycle", ExploreOpts{ShardDepth: 2, Bound: fmt.Sprintf("one table (one item declaring height 1, one declaring width 4) + long-lived wrappers of all renderers: all sequences of <=%d operations over %d in-place modifications/settings, render-all, failed RenderTo", ldepth, len(lops))}, func(c *Chooser) {
		lifecycle(x, c, "C09", ldepth, lops, true, func(t tabular.Table) lifeRenderer { return newC09All(t) },
			func(m *lifeModel, tags []string, out string, err error) {
				x.Clause("C09.error_means_no_text")
				if err != nil {
					x.Fail("C09.error_means_no_text", tags, "%v (after %v)", err, m.ops)
				}
			})
	})
	c09TallHook(x, targets, full)
	for _, f := range c09ExtraFamilies {
		f(x)
	}
	longs := LongTexts(`"`)
	x.Explore("long-texts", ExploreOpts{ShardDepth: 1, Bound: fmt.Sprintf("%d long texts (dense lengths around 64..4096 bytes, hostile characters at start/middle/doubled/end/only, many lines) as header and body cell; all render targets", len(longs))}, func(c *Chooser) {
		s := longs[c.Choose(len(longs))]
		b := NewBuilder(full)
		b.T.AddHeaders("h", s)
		b.T.AddRowItems(s, "x")
		b.T.AddRowItems("y")
		b.HasHeader, b.Header = true, []string{"h", s}
		b.Rows = []*RefRow{{Cells: []string{s, "x"}, Attached: true}, {Cells: []string{"y"}, Attached: true}}
		b.AddItemTag("long_text")
		c.Logf("header (h, <%d bytes>), rows (<%d bytes>, x), (y)", len(s), len(s))
		x.Transition(3)
		c09RenderAll(x, c, b, targets)
	})
	// systematic long family: anomalous suffixes after every prefix of a long regular build
	x.Explore("long-prefix+anomaly", ExploreOpts{ShardDepth: 2, Bound: fmt.Sprintf("prefix of a 12-op rectangular build (13) x all suffixes of <=%d ops over the full alphabet", x.Pick(1, 2))}, func(c *Chooser) {
		b := NewBuilder(full)
		k := c.Choose(13)
		c.Logf("-- first %d ops of the regular build", k)
		regular := []func(){
			func() { b.applyNamed(c, "AddHeaders/2", 0) }, func() { b.applyNamed(c, "AddRowItems/2", 0) },
			func() { b.applyNamed(c, "AddRowItems/2", 0) }, func() { b.applyNamed(c, "AddSeparator", 0) },
			func() { b.applyNamed(c, "AddRowItems/2", 0) }, func() { b.applyNamed(c, "AddRowItems/2", 0) },
			func() { b.applyNamed(c, "AddRowItems/2", 0) }, func() { b.applyNamed(c, "AddSeparator", 0) },
			func() { b.applyNamed(c, "AddRowItems/2", 0) }, func() { b.applyNamed(c, "AddRowItems/2", 0) },
			func() { b.applyNamed(c, "AddRowItems/2", 0) }, func() { b.applyNamed(c, "AddRowItems/2", 0) },
		}
		for i := 0; i < k; i++ {
			regular[i]()
		}
		for step := 0; step < x.Pick(1, 2); step++ {
			op := b.Step(c, step > 0)
			if op == "" {
				break
			}
			x.Transition(1)
		}
		c09RenderAll(x, c, b, targets)
	})
}

// applyNamed applies the first enabled op with the given name using a fixed fill (no choice point).
func (b *Builder) applyNamed(c *Chooser, name string, fill int) {
	saved := b.Cfg.Items
	cfg := *b.Cfg
	cfg.Items = func(c *Chooser, bb *Builder, op string, n int) ([]interface{}, []string, string) {
		items := make([]interface{}, n)
		texts := make([]string, n)
		for i := range items {
			items[i], texts[i] = "a", "a"
		}
		return items, texts, itoa(n) + "xa"
	}
	b.Cfg = &cfg
	defer func() { cfg.Items = saved; b.Cfg.Items = saved }()
	for _, op := range b.ops() {
		if op.name == name {
			op.do(c)
			b.Steps++
			return
		}
	}
	panic("harness: op not enabled: " + name)
}

func init() {
	c09TallHook = func(x *X, targets []Target, full *BuildCfg) {
		x.Explore("tall-prefix+anomaly", ExploreOpts{ShardDepth: 1, Bound: "49..51 rows/separators built first, then every 1-op suffix over the full alphabet; all render targets"}, func(c *Chooser) {
			b := NewBuilder(full)
			n := 49 + c.Choose(3)
			b.applyNamed(c, "AddHeaders/2", 0)
			for i := 0; i < n; i++ {
				if i%6 == 5 {
					b.applyNamed(c, "AddSeparator", 0)
				} else {
					b.applyNamed(c, "AddRowItems/2", 0)
				}
			}
			c.Logf("-- header + %d rows/separators built", n)
			if b.Step(c, true) != "" {
				x.Transition(1)
			}
			c09RenderAll(x, c, b, targets)
		})
	}
}

var c09TallHook func(x *X, targets []Target, full *BuildCfg)

var c09ExtraFamilies []func(x *X)

func c09RenderAll(x *X, c *Chooser, b *Builder, targets []Target) {
	tags := b.Tags()
	key := b.Key()
	x.State(key)
	for _, t := range tags {
		switch t {
		case "no_header", "no_rows", "ragged_rows", "has_separator":
		default:
			x.Nontrivial(key)
		}
	}
	for _, tg := range targets {
		r := renderBoth(tg, b.T)
		tt := append(append([]string{}, tags...), "target:"+tg.Format, "via:"+tg.Via)
		x.Clause("C09.no_panic")
		if r.Panicked {
			c.Logf("%s  -> PANIC", tg.Name)
			if !x.FailSite("C09.no_panic", tt, r.Site, "%s panicked: %v (in %s) on table %s", tg.Name, r.PanicVal, r.Site, key) {
				return
			}
			continue
		}
		if r.ToPanicked {
			c.Logf("%s RenderTo -> PANIC", tg.Name)
			if !x.FailSite("C09.no_panic", tt, r.ToSite, "%s (RenderTo) panicked: %v (in %s) on table %s", tg.Name, r.ToPanicVal, r.ToSite, key) {
				return
			}
			continue
		}
		x.Clause("C09.error_means_no_text")
		if r.Err != nil && r.Out != "" {
			c.Logf("%s  -> error AND text", tg.Name)
			x.Fail("C09.error_means_no_text", tt, "%s returned error %q together with %d bytes of text on table %s", tg.Name, r.Err, len(r.Out), key)
		}
		x.Clause("C09.render_renderto_agree_on_failure")
		if (r.Err != nil) != (r.ToErr != nil) {
			x.Fail("C09.render_renderto_agree_on_failure", tt, "%s: Render error=%v but RenderTo error=%v on table %s", tg.Name, r.Err, r.ToErr, key)
		}
		if r.Err != nil {
			x.Outcome(tg.Format + " error")
		} else {
			x.Outcome(tg.Format + " ok")
		}
	}
}

// c09All: long-lived wrappers of every renderer around one table; Render runs them all (panics propagate
// to the caller's recover) and reports an error only for the C09 clause "error together with text".
type c09All struct {
	rs    []lifeRenderer
	names []string
}

func newC09All(t tabular.Table) *c09All {
	a := &c09All{}
	add := func(n string, r lifeRenderer) { a.rs = append(a.rs, r); a.names = append(a.names, n) }
	add("csv", csv.Wrap(t))
	add("json", tjson.Wrap(t))
	add("markdown", markdown.Wrap(t))
	add("html", thtml.Wrap(t).SetRowClassGenerator(rowClassGen, nil))
	add("text", texttable.Wrap(t))
	tt := texttable.Wrap(t)
	tt.SetDecorationNamed("none")
	add("text:none", tt)
	return a
}

func (a *c09All) Render() (string, error) {
	var sb strings.Builder
	for i, r := range a.rs {
		out, err := r.Render()
		if err != nil && out != "" {
			return "", fmt.Errorf("%s returned error %q together with %d bytes of text", a.names[i], err, len(out))
		}
		sb.WriteString(out)
	}
	return sb.String(), nil
}

func (a *c09All) RenderTo(w io.Writer) error {
	for _, r := range a.rs {
		r.RenderTo(&faultWriter{mode: 1, k: 2})
	}
	return nil
}
