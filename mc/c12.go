package main

import (
	"fmt"
	"strings"
	"time"

	"go.pennock.tech/tabular"
)

// C12 — properties behave as an independent key-to-value map for each owner.

func init() {
	register(&Check{
		ID:        "C12",
		Level:     "model_checking",
		Technique: "bounded exhaustive exploration of set/set-nil/get/copy/grow operation sequences over several owners and keys on the real objects, compared after every step with a map-per-owner reference model; stored-state growth measured through the objects' %#v form",
		Rule: "family owners: starting from a 3-column table (12 owners: table, column 0/1/3(last) each via a handle taken before any growth AND via a fresh lookup, column 2, attached row, detached row, body cell, header cell) or from an empty table (table, column 0 via handle and fresh lookup, detached row) x 3 keys x {v1,v2,nil} plus table growth by 3 and by 11 columns, all sequences to depth 3 (thorough 4); " +
			"family copies: a cell, by-value copies of it made at any point (c := *cell; range copy), and one Cell value added to two rows, x 3 keys x {v1,v2,nil}, all sequences to depth 4 (thorough 5); " +
			"family many-keys: a cell or table carrying 6..10, 17, 33..35, 40 or 65 properties, read back in full (incl. a missing key) BEFORE a by-value copy, then <=2 sets on either side; family keys: one owner x 8 keys (equal values of distinct types, two pointers, a struct) x {v1,v2,nil} to depth 3; after EVERY step every owner is read for every key; non-trivial = sequence with an overwrite, a nil-set, a copy or a growth; distinct by reference state",
		Assumptions: []string{"keys are comparable and non-nil (others panic by design)", "stored-state size is read from the %#v form (number of chain links); if that form cannot be parsed the growth clause is skipped, not failed"},
		QuickBudget: 120 * time.Second, ThoroughBudget: 20 * time.Minute,
		Run: runC12,
	})
}

type mykey string

type structKey struct{ a int }

type pOwner struct {
	name  string
	get   func() tabular.PropertyOwner
	model map[interface{}]interface{}
	// links returns the number of chain links currently stored (-1 if unmeasurable)
	links func() int
}

func countLinks(s string) int {
	return strings.Count(s, "Value(")
}

func cellLinks(get func() *tabular.Cell) func() int {
	return func() int {
		s := fmt.Sprintf("%#v", get())
		if !strings.HasPrefix(s, "C(") {
			return -1
		}
		return countLinks(s)
	}
}

func rowLinks(r *tabular.Row) func() int {
	return func() int {
		s := fmt.Sprintf("%#v", r)
		if !strings.HasPrefix(s, "R(") {
			return -1
		}
		if i := strings.Index(s, ".Cells{"); i >= 0 {
			s = s[:i]
		}
		return countLinks(s)
	}
}

func tableLinks(t *tabular.ATable) func() int {
	return func() int {
		s := fmt.Sprintf("%#v", t)
		i := strings.Index(s, ".Columns{")
		if !strings.HasPrefix(s, "*ATable(") || i < 0 {
			return -1
		}
		return countLinks(s[:i])
	}
}

func columnLinks(t *tabular.ATable, n int) func() int {
	return func() int {
		s := fmt.Sprintf("%#v", t)
		i := strings.Index(s, ".Columns{")
		if i < 0 {
			return -1
		}
		s = s[i:]
		j := strings.Index(s, fmt.Sprintf("C(%d, ", n))
		if j < 0 {
			return -1
		}
		s = s[j:]
		end := len(s)
		for _, m := range []string{fmt.Sprintf(", C(%d, ", n+1), "}.NoHeaders", "}.HeaderRow"} {
			if k := strings.Index(s, m); k >= 0 && k < end {
				end = k
			}
		}
		return countLinks(s[:end])
	}
}

func c12CheckAll(x *X, owners []*pOwner, keys []interface{}, keyNames []string, tags []string, when string) bool {
	for _, o := range owners {
		po := o.get()
		for ki, k := range keys {
			x.Clause("C12.get_returns_last_set")
			got := po.GetProperty(k)
			want := o.model[k]
			if got != want {
				tg := tags
				x.Fail("C12.get_returns_last_set", tg, "%s: %s.GetProperty(%s) = %#v, want %#v (model %v)", when, o.name, keyNames[ki], got, want, o.model)
				return false
			}
		}
		if o.links != nil {
			n := o.links()
			if n < 0 {
				x.Note("growth_unmeasurable")
				continue
			}
			x.Clause("C12.no_growth")
			if n > len(o.model) {
				x.Fail("C12.no_growth", tags, "%s: %s stores %d property links for %d live keys: %#v", when, o.name, n, len(o.model), po)
				return false
			}
		}
	}
	return true
}

func modelKey(owners []*pOwner) string {
	var sb strings.Builder
	for _, o := range owners {
		fmt.Fprintf(&sb, "%s:%d;", o.name, len(o.model))
	}
	return sb.String()
}

func runC12(x *X) {
	p1, p2 := new(int), new(int)
	vals := []interface{}{"v1", "v2", nil}
	valNames := []string{`"v1"`, `"v2"`, "nil"}

	runC12NewCells(x)
	runC12Values(x)
	// ---- family owners
	depth := x.Pick(3, 4)
	x.Explore("owners", ExploreOpts{ShardDepth: 2, Bound: fmt.Sprintf("start {3-column table: 12 owners | empty table: 4 owners} x 3 keys x 3 values + growth by 3 and by 11 columns, depth<=%d", depth)}, func(c *Chooser) {
		t := tabular.New()
		empty := c.Choose(2) == 1
		det := tabular.NewRow()
		det.Add(tabular.NewCell("d"))
		var owners []*pOwner
		mk := func() map[interface{}]interface{} { return map[interface{}]interface{}{} }
		owners = append(owners, &pOwner{name: "table", get: func() tabular.PropertyOwner { return t }, model: mk(), links: tableLinks(t)})
		col0 := mk()
		h0 := t.Column(0)
		owners = append(owners,
			&pOwner{name: "handle0(=t.Column(0) taken at start)", get: func() tabular.PropertyOwner { return h0 }, model: col0},
			&pOwner{name: "t.Column(0)", get: func() tabular.PropertyOwner { return t.Column(0) }, model: col0, links: columnLinks(t, 0)},
			&pOwner{name: "detached row", get: func() tabular.PropertyOwner { return det }, model: mk(), links: rowLinks(det)})
		if empty {
			c.Logf("t := New()   // no columns yet; h0 := t.Column(0); det := NewRow()")
		} else {
			t.AddHeaders("h1", "h2", "h3")
			t.AddRowItems("a", "b", "c")
			c.Logf("t := New(); t.AddHeaders(h1,h2,h3); t.AddRowItems(a,b,c); det := NewRow(); h0,h1,h3 := t.Column(0),t.Column(1),t.Column(3)")
			row := t.AllRows()[0]
			col1, col3 := mk(), mk()
			h1, h3 := t.Column(1), t.Column(3)
			owners = append(owners,
				&pOwner{name: "handle1(=t.Column(1) taken at start)", get: func() tabular.PropertyOwner { return h1 }, model: col1},
				&pOwner{name: "t.Column(1)", get: func() tabular.PropertyOwner { return t.Column(1) }, model: col1, links: columnLinks(t, 1)},
				&pOwner{name: "t.Column(2)", get: func() tabular.PropertyOwner { return t.Column(2) }, model: mk(), links: columnLinks(t, 2)},
				&pOwner{name: "handle3(=t.Column(3), the last column, taken at start)", get: func() tabular.PropertyOwner { return h3 }, model: col3},
				&pOwner{name: "t.Column(3)", get: func() tabular.PropertyOwner { return t.Column(3) }, model: col3, links: columnLinks(t, 3)},
				&pOwner{name: "attached row", get: func() tabular.PropertyOwner { return row }, model: mk(), links: rowLinks(row)})
			cellGet := func() tabular.PropertyOwner {
				cp, err := t.CellAt(tabular.CellLocation{Row: 1, Column: 1})
				if err != nil {
					panic("harness: CellAt(1,1): " + err.Error())
				}
				return cp
			}
			hdrGet := func() tabular.PropertyOwner { return &t.Headers()[1] }
			owners = append(owners,
				&pOwner{name: "CellAt(1,1)", get: cellGet, model: mk(), links: cellLinks(func() *tabular.Cell { return cellGet().(*tabular.Cell) })},
				&pOwner{name: "Headers()[1]", get: hdrGet, model: mk(), links: cellLinks(func() *tabular.Cell { return hdrGet().(*tabular.Cell) })})
		}
		keys := []interface{}{"k", mykey("k"), p1}
		keyNames := []string{`"k"`, `mykey("k")`, "ptr1"}
		var tags []string
		if empty {
			tags = append(tags, "started_with_no_columns")
		}
		grown := false
		nt := false
		for step := 0; step < depth; step++ {
			nops := len(owners)*len(keys)*len(vals) + 2
			k := c.Choose(nops + 1)
			if k == 0 {
				break
			}
			k--
			x.Transition(1)
			if k >= nops-2 {
				n := []int{3, 11}[k-(nops-2)]
				items := make([]interface{}, n)
				for i := range items {
					items[i] = "g"
				}
				c.Logf("t.AddRowItems(<%d cells>)", n)
				t.AddRowItems(items...)
				if n == 11 {
					grown = true
					tags = appendUnique(tags, "grown_to_11_columns")
				}
				nt = true
			} else {
				oi, ki, vi := k/(len(keys)*len(vals)), (k/len(vals))%len(keys), k%len(vals)
				o := owners[oi]
				c.Logf("%s.SetProperty(%s, %s)", o.name, keyNames[ki], valNames[vi])
				if _, had := o.model[keys[ki]]; had || vals[vi] == nil {
					nt = true
				}
				if err := o.get().SetProperty(keys[ki], vals[vi]); err != nil {
					x.Fail("C12.set_succeeds", tags, "%s.SetProperty returned %v", o.name, err)
				}
				if vals[vi] == nil {
					delete(o.model, keys[ki])
				} else {
					o.model[keys[ki]] = vals[vi]
				}
				if strings.Contains(o.name, "Column(") && grown {
					tags = appendUnique(tags, "column_handle_across_reallocation")
				}
			}
			if !c12CheckAll(x, owners, keys, keyNames, tags, fmt.Sprintf("after step %d", step+1)) {
				return
			}
		}
		x.State(modelKey(owners) + fmt.Sprint(grown, empty))
		if nt {
			x.Nontrivial(fmt.Sprint(c.path))
		}
	})

	// ---- family copies
	cdepth := x.Pick(4, 5)
	x.Explore("copies", ExploreOpts{ShardDepth: 2, Bound: fmt.Sprintf("cell + by-value copies + one Cell value in two rows, 3 keys x 3 values, depth<=%d", cdepth)}, func(c *Chooser) {
		t := tabular.New()
		shared := tabular.NewCell("s")
		r1, r2 := tabular.NewRow(), tabular.NewRow()
		t.AddRowItems("a")
		t.AddRow(r1)
		t.AddRow(r2)
		c.Logf("t := New(); t.AddRowItems(a); t.AddRow(r1); t.AddRow(r2); A := t.CellAt(1,1)")
		a, _ := t.CellAt(tabular.CellLocation{Row: 1, Column: 1})
		owners := []*pOwner{{name: "A", get: func() tabular.PropertyOwner { return a }, model: map[interface{}]interface{}{}, links: cellLinks(func() *tabular.Cell { return a })}}
		keys := []interface{}{"k1", "k2", p1}
		keyNames := []string{`"k1"`, `"k2"`, "ptr1"}
		var tags []string
		sharedAdded := false
		ncopies := 0
		nt := false
		cloneModel := func(m map[interface{}]interface{}) map[interface{}]interface{} {
			n := map[interface{}]interface{}{}
			for k, v := range m {
				n[k] = v
			}
			return n
		}
		sharedModel := map[interface{}]interface{}{}
		for step := 0; step < cdepth; step++ {
			// ops: sets on every owner; copy of any owner (max 2 copies); set on the not-yet-added shared value; add shared value to both rows
			nset := len(owners) * len(keys) * len(vals)
			ncopy := 0
			if ncopies < 2 {
				ncopy = len(owners) * 2
			}
			nshared := 0
			if !sharedAdded {
				nshared = len(keys)*len(vals) + 1
			}
			k := c.Choose(1 + nset + ncopy + nshared)
			if k == 0 {
				break
			}
			k--
			x.Transition(1)
			switch {
			case k < nset:
				oi, ki, vi := k/(len(keys)*len(vals)), (k/len(vals))%len(keys), k%len(vals)
				o := owners[oi]
				c.Logf("%s.SetProperty(%s, %s)", o.name, keyNames[ki], valNames[vi])
				if len(owners) > 1 {
					tags = appendUnique(tags, "set_while_cell_copies_exist")
				}
				o.get().SetProperty(keys[ki], vals[vi])
				if vals[vi] == nil {
					delete(o.model, keys[ki])
				} else {
					o.model[keys[ki]] = vals[vi]
				}
				nt = true
			case k < nset+ncopy:
				k -= nset
				src := owners[k/2]
				srcCell := src.get().(*tabular.Cell)
				ncopies++
				var cp tabular.Cell
				name := fmt.Sprintf("copy%d", ncopies)
				if k%2 == 0 {
					c.Logf("%s := *%s   // by-value copy", name, src.name)
					cp = *srcCell
				} else {
					c.Logf("%s := tabular.NewCell(*%s)... via range copy `for _, c := range []Cell{*%s}`", name, src.name, src.name)
					for _, rc := range []tabular.Cell{*srcCell} {
						cp = rc
					}
				}
				cpp := &cp
				owners = append(owners, &pOwner{name: name, get: func() tabular.PropertyOwner { return cpp }, model: cloneModel(src.model), links: cellLinks(func() *tabular.Cell { return cpp })})
				tags = appendUnique(tags, "cell_copied")
				nt = true
			default:
				k -= nset + ncopy
				if k == len(keys)*len(vals) {
					c.Logf("r1.Add(shared); r2.Add(shared)   // one Cell value stored in two rows")
					r1.Add(shared)
					r2.Add(shared)
					sharedAdded = true
					c1, c2 := &r1.Cells()[0], &r2.Cells()[0]
					owners = append(owners,
						&pOwner{name: "r1.Cells()[0]", get: func() tabular.PropertyOwner { return c1 }, model: cloneModel(sharedModel), links: cellLinks(func() *tabular.Cell { return c1 })},
						&pOwner{name: "r2.Cells()[0]", get: func() tabular.PropertyOwner { return c2 }, model: cloneModel(sharedModel), links: cellLinks(func() *tabular.Cell { return c2 })})
					tags = appendUnique(tags, "cell_value_in_two_rows")
					nt = true
				} else {
					ki, vi := k/len(vals), k%len(vals)
					c.Logf("shared.SetProperty(%s, %s)   // before it is added to any row", keyNames[ki], valNames[vi])
					shared.SetProperty(keys[ki], vals[vi])
					if vals[vi] == nil {
						delete(sharedModel, keys[ki])
					} else {
						sharedModel[keys[ki]] = vals[vi]
					}
				}
			}
			if !c12CheckAll(x, owners, keys, keyNames, tags, fmt.Sprintf("after step %d", step+1)) {
				return
			}
		}
		x.State(modelKey(owners))
		if nt {
			x.Nontrivial(fmt.Sprint(c.path))
		}
	})

	// ---- family many-keys: owners carrying many properties (look-up structures may change shape with size),
	// read in full BEFORE being copied by value, then modified on either side
	x.Explore("many-keys", ExploreOpts{ShardDepth: 2, Bound: "cell or table with 6..10, 17, 33..35, 40 or 65 keys; full read-back incl. a missing key; by-value copy (cells); then <=2 sets (existing key / nil / new key) on either side"}, func(c *Chooser) {
		nk := []int{6, 7, 8, 9, 10, 17, 33, 34, 35, 40, 65}[c.Choose(11)]
		onTable := c.Choose(3) == 2
		t := tabular.New()
		t.AddRowItems("a")
		cell, _ := t.CellAt(tabular.CellLocation{Row: 1, Column: 1})
		var keys []interface{}
		var keyNames []string
		for i := 0; i < nk+1; i++ { // the last one is never set initially
			keys = append(keys, fmt.Sprintf("k%d", i))
			keyNames = append(keyNames, fmt.Sprintf("k%d", i))
		}
		var first tabular.PropertyOwner = cell
		name := "cell"
		if onTable {
			first, name = t, "table"
		}
		base := &pOwner{name: name, get: func() tabular.PropertyOwner { return first }, model: map[interface{}]interface{}{}}
		if !onTable {
			base.links = cellLinks(func() *tabular.Cell { return cell })
		} else {
			base.links = tableLinks(t)
		}
		for i := 0; i < nk; i++ {
			first.SetProperty(keys[i], i)
			base.model[keys[i]] = i
		}
		c.Logf("%s with %d properties k0..k%d; read all of them and the missing k%d", name, nk, nk-1, nk)
		owners := []*pOwner{base}
		tags := []string{"many_keys"}
		if !c12CheckAll(x, owners, keys, keyNames, tags, "after the initial sets") {
			return
		}
		if !onTable {
			cp := *cell
			cpp := &cp
			m2 := map[interface{}]interface{}{}
			for k, v := range base.model {
				m2[k] = v
			}
			c.Logf("copy := *cell   // by-value copy after the full read-back")
			owners = append(owners, &pOwner{name: "copy", get: func() tabular.PropertyOwner { return cpp }, model: m2, links: cellLinks(func() *tabular.Cell { return cpp })})
			tags = append(tags, "cell_copied", "set_while_cell_copies_exist")
		}
		for step := 0; step < 2; step++ {
			k := c.Choose(1 + len(owners)*4)
			if k == 0 {
				break
			}
			k--
			o := owners[k/4]
			x.Transition(1)
			switch k % 4 {
			case 0:
				c.Logf("%s.SetProperty(k0, changed)   // the oldest key", o.name)
				o.get().SetProperty(keys[0], "changed")
				o.model[keys[0]] = "changed"
			case 1:
				c.Logf("%s.SetProperty(k%d, changed)   // the newest key", o.name, nk-1)
				o.get().SetProperty(keys[nk-1], "changed2")
				o.model[keys[nk-1]] = "changed2"
			case 2:
				c.Logf("%s.SetProperty(k3, nil)", o.name)
				o.get().SetProperty(keys[3], nil)
				delete(o.model, keys[3])
			case 3:
				c.Logf("%s.SetProperty(k%d, new)   // a key never set before", o.name, nk)
				o.get().SetProperty(keys[nk], "new")
				o.model[keys[nk]] = "new"
			}
			if !c12CheckAll(x, owners, keys, keyNames, tags, fmt.Sprintf("after step %d", step+1)) {
				return
			}
		}
		x.State(modelKey(owners) + fmt.Sprint(nk, onTable))
		x.Nontrivial(fmt.Sprint(c.path))
	})

	// ---- family keys
	x.Explore("keys", ExploreOpts{ShardDepth: 2, Bound: "2 owners x 8 keys (equal values of distinct types, two pointers, struct) x 3 values, depth<=3"}, func(c *Chooser) {
		t := tabular.New()
		t.AddRowItems("a")
		cell, _ := t.CellAt(tabular.CellLocation{Row: 1, Column: 1})
		keys := []interface{}{"k", mykey("k"), 1, int64(1), p1, p2, structKey{1}, structKey{2}}
		keyNames := []string{`"k"`, `mykey("k")`, "int 1", "int64 1", "ptr1", "ptr2", "structKey{1}", "structKey{2}"}
		owners := []*pOwner{
			{name: "table", get: func() tabular.PropertyOwner { return t }, model: map[interface{}]interface{}{}, links: tableLinks(t)},
			{name: "cell", get: func() tabular.PropertyOwner { return cell }, model: map[interface{}]interface{}{}, links: cellLinks(func() *tabular.Cell { return cell })},
		}
		nt := false
		for step := 0; step < 3; step++ {
			k := c.Choose(1 + len(owners)*len(keys)*len(vals))
			if k == 0 {
				break
			}
			k--
			x.Transition(1)
			oi, ki, vi := k/(len(keys)*len(vals)), (k/len(vals))%len(keys), k%len(vals)
			o := owners[oi]
			c.Logf("%s.SetProperty(%s, %s)", o.name, keyNames[ki], valNames[vi])
			if step > 0 {
				nt = true
			}
			o.get().SetProperty(keys[ki], vals[vi])
			if vals[vi] == nil {
				delete(o.model, keys[ki])
			} else {
				o.model[keys[ki]] = vals[vi]
			}
			if !c12CheckAll(x, owners, keys, keyNames, []string{"keys_family"}, fmt.Sprintf("after step %d", step+1)) {
				return
			}
		}
		x.State(modelKey(owners))
		if nt {
			x.Nontrivial(fmt.Sprint(c.path))
		}
	})
}
