package main

// C11, family "equal-valued-errors": several failures that produce the SAME error value (a shared
// sentinel pointer, or a value-type error whose values compare equal).  Each raise is a separate
// error for the statement: the table must report the value as many times as it was raised on
// things that belong to it, and every unique error exactly once.

import (
	"errors"
	"fmt"

	"go.pennock.tech/tabular"
)

type c11eqCB struct {
	fire func() error
}

// c11Multi is a home-grown multi-error: an error in its own right that also offers its members.
type c11Multi struct{ members []error }

func (m *c11Multi) Error() string   { return fmt.Sprintf("multi-error with %d members", len(m.members)) }
func (m *c11Multi) Unwrap() []error { return m.members }

func (cb *c11eqCB) UpdateProperties(po tabular.PropertyOwner) error { return cb.fire() }

func runC11Equal(x *X) {
	depth := x.Pick(6, 7)
	x.Explore("equal-valued-errors", ExploreOpts{ShardDepth: 3, Bound: fmt.Sprintf("sentinel kind (shared pointer | equal value | errors.Join of two | multi-error with no members) x failing add-time callback (none | table/ROW | table/CELL) x all sequences of <=%d operations {t.AddError(S|unique), r1/r2 := NewRow, r.AddError(S|unique), r.Add(cell), t.AddRow(r)}", depth)}, func(c *Chooser) {
		var S error
		kind := c.Choose(4)
		switch kind {
		case 0:
			S = errors.New("sentinel")
		case 1:
			S = zeroErr{}
		case 2:
			S = errors.Join(errors.New("member-a"), errors.New("member-b"))
		case 3:
			S = &c11Multi{}
		}
		isS := func(e error) bool {
			if kind != 1 {
				return e == S
			}
			_, ok := e.(zeroErr)
			return ok
		}
		t := tabular.New()
		type rowSt struct {
			ptr      *tabular.Row
			attached bool
			s        int   // sentinel raises held
			uniq     []int // unique serials held, in order
		}
		var tableS int
		var tableU [][]int // per source: serials in order (source = table-direct, or one row)
		tableDirect := []int{}
		rows := []*rowSt{nil, nil}
		var cur *rowSt // row being operated on (for callbacks)
		serial := 0
		cbKind := c.Choose(3)
		cbName := []string{"none", "table/ADD/ROW", "table/ADD/CELL"}[cbKind]
		raiseS := func() error {
			if cur != nil {
				cur.s++
			} else {
				tableS++
			}
			return S
		}
		if cbKind > 0 {
			if err := registerCB(t, t, 0, 3-cbKind, &c11eqCB{raiseS}); err != nil {
				x.Fail("C11.reported_once", []string{"equal_valued"}, "registration %s refused: %v", cbName, err)
				return
			}
		}
		c.Logf("sentinel kind: %s; failing callback returning the sentinel: %s", []string{"one shared pointer error", "value-type error, all values equal", "one shared errors.Join(a, b) value", "one shared multi-error (Unwrap() []error) with no members"}[kind], cbName)
		var ops []string
		tags := []string{"equal_valued_errors", "sentinel:" + []string{"pointer", "value", "joined", "empty_multi"}[kind], "callback:" + cbName}
		check := func() bool {
			var errs []error
			if p, val, site := Safe(func() { errs = t.Errors() }); p {
				x.FailSite("C11.no_panic", append(tags, "panic"), site, "table.Errors() panicked: %v", val)
				return false
			}
			x.Clause("C11.nil_or_nonempty")
			if errs != nil && len(errs) == 0 {
				x.Fail("C11.nil_or_nonempty", tags, "table.Errors() returned an empty non-nil list after %v", ops)
				return false
			}
			wantS := tableS
			wantU := map[int]bool{}
			for _, u := range tableDirect {
				wantU[u] = true
			}
			var sources [][]int
			sources = append(sources, tableDirect)
			for _, r := range rows {
				if r != nil && r.attached {
					wantS += r.s
					for _, u := range r.uniq {
						wantU[u] = true
					}
					sources = append(sources, r.uniq)
				}
			}
			_ = tableU
			gotS := 0
			pos := map[int]int{}
			x.Clause("C11.reported_once")
			for i, e := range errs {
				switch {
				case e == nil:
					x.Fail("C11.no_nil", tags, "table.Errors()[%d] is nil after %v", i, ops)
					return false
				case isS(e):
					gotS++
				default:
					se, ok := e.(serialErr)
					if !ok || !wantU[se.serial] {
						x.Fail("C11.reported_once", append(tags, "unexpected"), "table.Errors() holds %v which was never raised on the table or an attached row; list %v after %v", e, errs, ops)
						return false
					}
					if _, dup := pos[se.serial]; dup {
						x.Fail("C11.reported_once", append(tags, "duplicated"), "E%d occurs twice in table.Errors()=%v after %v", se.serial, errs, ops)
						return false
					}
					pos[se.serial] = i
				}
			}
			for u := range wantU {
				if _, ok := pos[u]; !ok {
					x.Fail("C11.reported_once", append(tags, "lost"), "E%d was raised on the table or an attached row but table.Errors()=%v does not hold it; after %v", u, errs, ops)
					return false
				}
			}
			if gotS != wantS {
				what := "lost"
				if gotS > wantS {
					what = "duplicated"
				}
				x.Fail("C11.reported_once", append(tags, what, "equal_valued_error_raised_several_times"), "the sentinel error was raised %d times on the table and its attached rows, table.Errors() holds it %d times: %v; after %v", wantS, gotS, errs, ops)
				return false
			}
			x.Clause("C11.source_order")
			for _, src := range sources {
				for i := 1; i < len(src); i++ {
					if pos[src[i-1]] > pos[src[i]] {
						x.Fail("C11.source_order", tags, "E%d and E%d come from the same source in that order, table.Errors()=%v; after %v", src[i-1], src[i], errs, ops)
						return false
					}
				}
			}
			// detached rows hold exactly what they were given
			for i, r := range rows {
				if r == nil || r.attached {
					continue
				}
				re := r.ptr.Errors()
				gs, gu := 0, []int{}
				for _, e := range re {
					if e != nil && isS(e) {
						gs++
					} else if se, ok := e.(serialErr); ok {
						gu = append(gu, se.serial)
					}
				}
				if gs != r.s || fmt.Sprint(gu) != fmt.Sprint(append([]int{}, r.uniq...)) {
					x.Fail("C11.reported_once", append(tags, "detached_row"), "detached row r%d was given the sentinel %d times and serials %v, it reports %v; after %v", i+1, r.s, r.uniq, re, ops)
					return false
				}
			}
			return true
		}
		for step := 0; step < depth; step++ {
			type op struct {
				name string
				do   func()
			}
			var menu []op
			menu = append(menu, op{"t.AddError(S)", func() { tableS++; t.AddError(S) }})
			menu = append(menu, op{"t.AddError(unique)", func() {
				serial++
				tableDirect = append(tableDirect, serial)
				t.AddError(serialErr{serial, "direct-table"})
			}})
			for i := range rows {
				i := i
				rn := fmt.Sprintf("r%d", i+1)
				if rows[i] == nil {
					if i == 0 || rows[0] != nil {
						menu = append(menu, op{rn + " := NewRow()", func() { rows[i] = &rowSt{ptr: tabular.NewRow()} }})
					}
					continue
				}
				r := rows[i]
				menu = append(menu, op{rn + ".AddError(S)", func() { r.s++; r.ptr.AddError(S) }})
				menu = append(menu, op{rn + ".AddError(unique)", func() {
					serial++
					r.uniq = append(r.uniq, serial)
					r.ptr.AddError(serialErr{serial, rn})
				}})
				if cbKind == 2 && !r.attached {
					menu = append(menu, op{rn + ".Add(cell)", func() { r.ptr.Add(tabular.NewCell("c")) }})
				}
				if !r.attached {
					menu = append(menu, op{"t.AddRow(" + rn + ")", func() {
						cur = r
						t.AddRow(r.ptr)
						cur = nil
						r.attached = true
					}})
				}
			}
			k := c.Choose(len(menu) + 1)
			if k == 0 {
				break
			}
			o := menu[k-1]
			c.Logf("%s", o.name)
			ops = append(ops, o.name)
			x.Transition(1)
			if p, val, site := Safe(o.do); p {
				x.FailSite("C11.no_panic", append(tags, "panic"), site, "%s panicked: %v (after %v)", o.name, val, ops)
				return
			}
			if !check() {
				return
			}
		}
		x.State(fmt.Sprint(kind, cbKind, ops))
		if tableS > 0 || serial > 0 {
			x.Nontrivial(fmt.Sprint(kind, cbKind, ops))
		}
	})
}
