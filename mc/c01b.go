package main

// C01, family "equal-text-neighbours": two DIFFERENT items whose text form is the same, stored next to each
// other (a header replaced by an equal-looking one, the same column of two consecutive rows, two adjacent
// cells of a row).  Each cell must hold ITS item: Item() identity, and a mutation + Update of one item
// shows in its own cell only.

import (
	"fmt"

	"go.pennock.tech/tabular"
)

func runC01Neighbours(x *X) {
	type pair struct {
		name string
		mk   func() (a, b interface{}, text string, mutateB func(string))
	}
	ptrPair := func(text string) func() (interface{}, interface{}, string, func(string)) {
		return func() (interface{}, interface{}, string, func(string)) {
			a, _ := mkItem(mS, true, ItemF{S: text})
			b, setB := mkItem(mS, true, ItemF{S: text})
			return a, b, text, func(s string) { setB(ItemF{S: s}) }
		}
	}
	pairs := []pair{
		{"two pointer items, same text", ptrPair("same")},
		{"two pointer items, both empty", ptrPair("")},
		{"two pointer items, same two-line text", ptrPair("l1\nl2")},
		{`"1" and 1`, func() (interface{}, interface{}, string, func(string)) { return "1", 1, "1", nil }},
		{`1 and "1"`, func() (interface{}, interface{}, string, func(string)) { return 1, "1", "1", nil }},
		{`nil and ""`, func() (interface{}, interface{}, string, func(string)) { return nil, "", "", nil }},
		{`"" and nil`, func() (interface{}, interface{}, string, func(string)) { return "", nil, "", nil }},
		{"'x' (rune) and \"x\"", func() (interface{}, interface{}, string, func(string)) { return 'x', "x", "x", nil }},
		{"true and \"true\"", func() (interface{}, interface{}, string, func(string)) { return true, "true", "true", nil }},
	}
	places := []string{"AddHeaders(a, other) then AddHeaders(b, other)", "AddRowItems(a, other) then AddRowItems(b, other)", "AddRowItems(a, b)", "Row.Add(a).Add(b), then attached", "AddHeaders(a, x); AddRowItems(b, y)  // body cell equal to its header",
		"AddRowItems(a), AddSeparator, AddRowItems(b)", "AddRowItems(other, a) then AddRowItems(other, b) on a table that was rendered in between"}
	x.Explore("equal-text-neighbours", ExploreOpts{ShardDepth: 2, Bound: fmt.Sprintf("%d pairs of different items with equal text x %d placements; Item() identity of both cells, then the second item mutated + Update", len(pairs), len(places))}, func(c *Chooser) {
		pr := pairs[c.Choose(len(pairs))]
		place := c.Choose(len(places))
		a, b, text, mutB := pr.mk()
		c.Logf("items: %s; placement: %s", pr.name, places[place])
		t := tabular.New()
		var ca, cb *tabular.Cell
		at := func(r, col int) *tabular.Cell {
			if r == 0 {
				h := t.Headers()
				return &h[col-1]
			}
			cp, err := t.CellAt(tabular.CellLocation{Row: r, Column: col})
			if err != nil {
				panic("harness: CellAt: " + err.Error())
			}
			return cp
		}
		aGone := false
		switch place {
		case 0:
			t.AddHeaders(a, "other")
			t.AddHeaders(b, "other")
			cb = at(0, 1)
			aGone = true
		case 1:
			t.AddRowItems(a, "other")
			t.AddRowItems(b, "other")
			ca, cb = at(1, 1), at(2, 1)
		case 2:
			t.AddRowItems(a, b)
			ca, cb = at(1, 1), at(1, 2)
		case 3:
			r := tabular.NewRow()
			r.Add(tabular.NewCell(a)).Add(tabular.NewCell(b))
			t.AddRow(r)
			ca, cb = at(1, 1), at(1, 2)
		case 4:
			t.AddHeaders(a, "x")
			t.AddRowItems(b, "y")
			ca, cb = at(0, 1), at(1, 1)
		case 5:
			t.AddRowItems(a)
			t.AddSeparator()
			t.AddRowItems(b)
			ca, cb = at(1, 1), at(3, 1)
		case 6:
			t.AddRowItems("other", a)
			t.InvokeRenderCallbacks()
			t.AddRowItems("other", b)
			ca, cb = at(1, 2), at(2, 2)
		}
		x.Transition(2)
		tags := []string{"equal_text_neighbours", "place:" + places[place]}
		desc := pr.name
		if !aGone {
			c01Observe(x, ca, text, a, tags, "first of two equal-looking items", desc)
		}
		c01Observe(x, cb, text, b, tags, "second of two equal-looking items", desc)
		if mutB != nil {
			mutB("changed")
			cb.Update()
			x.Transition(1)
			c01Observe(x, cb, "changed", b, append(tags, "after_update"), "second item mutated + its cell updated", desc)
			if !aGone {
				ca.Update()
				c01Observe(x, ca, text, a, append(tags, "after_update"), "first item untouched, its cell updated too", desc)
			}
		}
		x.State(fmt.Sprint(pr.name, place))
		x.Nontrivial(fmt.Sprint(pr.name, place))
	})
}

// family "in-a-big-table": the same observations for an item stored in a table that already holds many cells
// (the ladder and "stale until Update" must not depend on how big the table is or where in it the cell sits).
func runC01BigTable(x *X) {
	sizes := [][2]int{{0, 0}, {63, 4}, {64, 4}, {65, 4}, {300, 4}, {1100, 3}, {20, 60}, {5000, 1}}
	paths := []string{"AddRowItems(item, ...)", "NewRow().Add(NewCell(item)) + AddRow", "AppendNewRow().Add(NewCell(item))", "Row.Add on the last attached row"}
	masks := []int{mS, mS | mG, mE | mS, mS | mW | mH}
	x.Explore("in-a-big-table", ExploreOpts{ShardDepth: 2, Bound: fmt.Sprintf("%d table sizes (rows x columns up to 5000 cells) filled first x %d storing paths x %d pointer item types; text observed after storing, after mutation (stale), after Update", len(sizes), len(paths), len(masks))}, func(c *Chooser) {
		sz := sizes[c.Choose(len(sizes))]
		path := c.Choose(len(paths))
		mask := masks[c.Choose(len(masks))]
		t := tabular.New()
		hdr := make([]interface{}, sz[1])
		for i := range hdr {
			hdr[i] = fmt.Sprintf("h%d", i)
		}
		if sz[1] > 0 {
			t.AddHeaders(hdr...)
		}
		for r := 0; r < sz[0]; r++ {
			row := make([]interface{}, sz[1])
			for i := range row {
				row[i] = r*sz[1] + i
			}
			t.AddRowItems(row...)
		}
		it, setF := mkItem(mask, true, ItemF{S: "old", G: "gold", E: "eold", W: 3, H: 1})
		c.Logf("table of %d rows x %d columns filled; then %s with a pointer item (mask %b)", sz[0], sz[1], paths[path], mask)
		switch path {
		case 0:
			t.AddRowItems(it, "other")
		case 1:
			t.AddRow(tabular.NewRow().Add(tabular.NewCell(it)).Add(tabular.NewCell("other")))
		case 2:
			t.AppendNewRow().Add(tabular.NewCell(it)).Add(tabular.NewCell("other"))
		case 3:
			if t.NRows() == 0 {
				t.AddRowItems("first")
			}
			rr := t.AllRows()
			rr[len(rr)-1].Add(tabular.NewCell(it))
		}
		x.Transition(1)
		rr := t.AllRows()
		last := rr[len(rr)-1]
		cs := last.Cells()
		var cell *tabular.Cell
		for i := range cs {
			if cs[i].Item() == it {
				cell = &cs[i]
			}
		}
		tags := []string{"big_table", fmt.Sprintf("cells_before:%d", sz[0]*sz[1]), "path:" + paths[path]}
		if cell == nil {
			x.Fail("C01.item", tags, "no cell of the last row holds the item that was just stored there")
			return
		}
		want := func(f ItemF) string { return refText(mask, f, it) }
		desc := fmt.Sprintf("pointer item mask %b", mask)
		c01Observe(x, cell, want(ItemF{S: "old", G: "gold", E: "eold"}), it, tags, "after storing", desc)
		setF(ItemF{S: "new", G: "gnew", E: "enew", W: 3, H: 1})
		x.Clause("C01.stale_until_update")
		if got := cell.String(); got != want(ItemF{S: "old", G: "gold", E: "eold"}) {
			x.Fail("C01.stale_until_update", append(tags, "text_follows_item_without_update"), "item mutated, Update() NOT called: cell text is %q, it must still be %q (table had %d cells when the item was added via %s)", got, want(ItemF{S: "old", G: "gold", E: "eold"}), sz[0]*sz[1], paths[path])
			return
		}
		cell.Update()
		c01Observe(x, cell, want(ItemF{S: "new", G: "gnew", E: "enew"}), it, append(tags, "after_update"), "after Update", desc)
		x.State(fmt.Sprint(sz, path, mask))
		x.Nontrivial(fmt.Sprint(sz, path, mask))
	})
}
