package main

// C01, family "equal-text-neighbours": two DIFFERENT items whose text form is the same, stored next to each
// other (a header replaced by an equal-looking one, the same column of two consecutive rows, two adjacent
// cells of a row).  Each cell must hold ITS item: Item() identity, and a mutation + Update of one item
// shows in its own cell only.

import (
	"fmt"

	"go.pennock.tech/tabular"
)

func runC01Neighbours(x *X) {
	type pair struct {
		name string
		mk   func() (a, b interface{}, text string, mutateB func(string))
	}
	ptrPair := func(text string) func() (interface{}, interface{}, string, func(string)) {
		return func() (interface{}, interface{}, string, func(string)) {
			a, _ := mkItem(mS, true, ItemF{S: text})
			b, setB := mkItem(mS, true, ItemF{S: text})
			return a, b, text, func(s string) { setB(ItemF{S: s}) }
		}
	}
	pairs := []pair{
		{"two pointer items, same text", ptrPair("same")},
		{"two pointer items, both empty", ptrPair("")},
		{"two pointer items, same two-line text", ptrPair("l1\nl2")},
		{`"1" and 1`, func() (interface{}, interface{}, string, func(string)) { return "1", 1, "1", nil }},
		{`1 and "1"`, func() (interface{}, interface{}, string, func(string)) { return 1, "1", "1", nil }},
		{`nil and ""`, func() (interface{}, interface{}, string, func(string)) { return nil, "", "", nil }},
		{`"" and nil`, func() (interface{}, interface{}, string, func(string)) { return "", nil, "", nil }},
		{"'x' (rune) and \"x\"", func() (interface{}, interface{}, string, func(string)) { return 'x', "x", "x", nil }},
		{"true and \"true\"", func() (interface{}, interface{}, string, func(string)) { return true, "true", "true", nil }},
	}
	places := []string{"AddHeaders(a, other) then AddHeaders(b, other)", "AddRowItems(a, other) then AddRowItems(b, other)", "AddRowItems(a, b)", "Row.Add(a).Add(b), then attached", "AddHeaders(a, x); AddRowItems(b, y)  // body cell equal to its header",
		"AddRowItems(a), AddSeparator, AddRowItems(b)", "AddRowItems(other, a) then AddRowItems(other, b) on a table that was rendered in between"}
	x.Explore("equal-text-neighbours", ExploreOpts{ShardDepth: 2, Bound: fmt.Sprintf("%d pairs of different items with equal text x %d placements; Item() identity of both cells, then the second item mutated + Update", len(pairs), len(places))}, func(c *Chooser) {
		pr := pairs[c.Choose(len(pairs))]
		place := c.Choose(len(places))
		a, b, text, mutB := pr.mk()
		c.Logf("items: %s; placement: %s", pr.name, places[place])
		t := tabular.New()
		var ca, cb *tabular.Cell
		at := func(r, col int) *tabular.Cell {
			if r == 0 {
				h := t.Headers()
				return &h[col-1]
			}
			cp, err := t.CellAt(tabular.CellLocation{Row: r, Column: col})
			if err != nil {
				panic("harness: CellAt: " + err.Error())
			}
			return cp
		}
		aGone := false
		switch place {
		case 0:
			t.AddHeaders(a, "other")
			t.AddHeaders(b, "other")
			cb = at(0, 1)
			aGone = true
		case 1:
			t.AddRowItems(a, "other")
			t.AddRowItems(b, "other")
			ca, cb = at(1, 1), at(2, 1)
		case 2:
			t.AddRowItems(a, b)
			ca, cb = at(1, 1), at(1, 2)
		case 3:
			r := tabular.NewRow()
			r.Add(tabular.NewCell(a)).Add(tabular.NewCell(b))
			t.AddRow(r)
			ca, cb = at(1, 1), at(1, 2)
		case 4:
			t.AddHeaders(a, "x")
			t.AddRowItems(b, "y")
			ca, cb = at(0, 1), at(1, 1)
		case 5:
			t.AddRowItems(a)
			t.AddSeparator()
			t.AddRowItems(b)
			ca, cb = at(1, 1), at(3, 1)
		case 6:
			t.AddRowItems("other", a)
			t.InvokeRenderCallbacks()
			t.AddRowItems("other", b)
			ca, cb = at(1, 2), at(2, 2)
		}
		x.Transition(2)
		tags := []string{"equal_text_neighbours", "place:" + places[place]}
		desc := pr.name
		if !aGone {
			c01Observe(x, ca, text, a, tags, "first of two equal-looking items", desc)
		}
		c01Observe(x, cb, text, b, tags, "second of two equal-looking items", desc)
		if mutB != nil {
			mutB("changed")
			cb.Update()
			x.Transition(1)
			c01Observe(x, cb, "changed", b, append(tags, "after_update"), "second item mutated + its cell updated", desc)
			if !aGone {
				ca.Update()
				c01Observe(x, ca, text, a, append(tags, "after_update"), "first item untouched, its cell updated too", desc)
			}
		}
		x.State(fmt.Sprint(pr.name, place))
		x.Nontrivial(fmt.Sprint(pr.name, place))
	})
}
