package main

import (
	"bytes"
	"fmt"
	"strings"
	"time"

	"go.pennock.tech/tabular"
	"go.pennock.tech/tabular/auto"
	"go.pennock.tech/tabular/csv"
	thtml "go.pennock.tech/tabular/html"
	tjson "go.pennock.tech/tabular/json"
	"go.pennock.tech/tabular/markdown"
	"go.pennock.tech/tabular/texttable"
)

// C10 — a table renders the same whatever wrapper created it or is wrapped around it.

func init() {
	register(&Check{
		ID:        "C10",
		Level:     "exploration",
		Technique: "bounded exhaustive configuration enumeration (table x creation path x wrapper nesting x target format x entry point) on the real code; differential oracle: every route to the same content must give the bytes of the canonical route",
		Rule: "family deep-nesting: 1..14 texttable/markdown wrappers (or package-level renders) stacked on one table before its rows are added, rendered through the oldest and the outermost wrapper; family routes: 15 tables (regular, ragged, zero-cell rows, separators first/last/consecutive, multi-line and wide texts, no header, empty header, header only, a table whose JSON rendering fails half-way, post-attach cell, alignment property set) x 16 creation paths (tabular.New, the five sub-package New, auto.New of every listed style) " +
			"x every nesting of <=2 (thorough <=3) wrappers from {csv, html, json, markdown, texttable, auto} x 6 target formats (csv, json, markdown, html, text default, text utf8-light) x every existing entry point (package Render/RenderTo, Wrap(t).Render/RenderTo, auto.Render/RenderTo, and the created/outermost object's own Render/RenderTo when it is a renderer of the target format); " +
			"non-trivial = a non-core creation path or a non-empty wrapper chain; distinct by (table, path, chain, target)",
		Assumptions: []string{"html has no package-level Render/RenderTo: only entry points that exist are compared", "the canonical route is tabular.New() + X.Wrap(t).Render()"},
		QuickBudget: 150 * time.Second, ThoroughBudget: 25 * time.Minute,
		Run: runC10,
	})
}

type c10Table struct {
	name  string
	build func(t tabular.Table)
}

func c10Tables() []c10Table {
	return []c10Table{
		{"regular 2x2 with header", func(t tabular.Table) { t.AddHeaders("h1", "h2"); t.AddRowItems("a", "b"); t.AddRowItems("c", "d") }},
		{"ragged", func(t tabular.Table) {
			t.AddHeaders("h1", "h2", "h3")
			t.AddRowItems("a")
			t.AddRowItems("b", "c", "d")
		}},
		{"zero-cell row", func(t tabular.Table) { t.AddHeaders("h1", "h2"); t.AddRowItems(); t.AddRowItems("a", "b") }},
		{"separators first/last/consecutive", func(t tabular.Table) {
			t.AddHeaders("h1", "h2")
			t.AddSeparator()
			t.AddRowItems("a", "b")
			t.AddSeparator()
			t.AddSeparator()
			t.AddRowItems("c", "d")
			t.AddSeparator()
		}},
		{"multi-line and wide", func(t tabular.Table) {
			t.AddHeaders("h\n1", "ｗｗ")
			t.AddRowItems("a\nbb\nccc", "é")
			t.AddRowItems("x", "y\n")
		}},
		{"no header", func(t tabular.Table) { t.AddRowItems("a", "b"); t.AddRowItems("c") }},
		{"empty header texts", func(t tabular.Table) { t.AddHeaders("", ""); t.AddRowItems("a", "b") }},
		{"header only", func(t tabular.Table) { t.AddHeaders("h1", "h2") }},
		{"post-attach cell", func(t tabular.Table) {
			t.AddHeaders("h1", "h2")
			r := t.AppendNewRow()
			r.Add(tabular.NewCell("late"))
			r.Add(tabular.NewCell("later"))
		}},
		{"hostile texts", func(t tabular.Table) { t.AddHeaders(`a"b`, "c|d"); t.AddRowItems("<x>", "q,r"); t.AddRowItems(nil, 5) }},
		{"empty table", func(t tabular.Table) {}},
		{"json fails half-way", func(t tabular.Table) {
			t.AddHeaders("h1", "h2")
			t.AddRowItems("fine", 1)
			t.AddRowItems("bad", unencodable{})
		}},
		{"header shorter than rows", func(t tabular.Table) { t.AddHeaders("h1"); t.AddRowItems("a", "b") }},
		{"detached row", func(t tabular.Table) {
			t.AddHeaders("h1", "h2")
			r := t.NewRowSizedFor()
			r.Add(tabular.NewCell("a")).Add(tabular.NewCell("b"))
			t.AddRow(r)
		}},
		{"single column long", func(t tabular.Table) {
			t.AddHeaders("h")
			for i := 0; i < 5; i++ {
				t.AddRowItems(strings.Repeat("x", i))
			}
		}},
	}
}

type c10Creator struct {
	name string
	mk   func() tabular.Table
	self string // the target format this object renders by itself ("" = none of the compared targets)
}

func selfFormatOfStyle(s string) string {
	switch s {
	case "csv", "json", "markdown", "html":
		return s
	case "utf8-heavy":
		return "text(default)"
	case "utf8-light":
		return "text(utf8-light)"
	}
	return ""
}

func c10Creators() []c10Creator {
	cs := []c10Creator{
		{"tabular.New", func() tabular.Table { return tabular.New() }, ""},
		{"csv.New", func() tabular.Table { return csv.New() }, "csv"},
		{"html.New", func() tabular.Table { return thtml.New() }, "html"},
		{"json.New", func() tabular.Table { return tjson.New() }, "json"},
		{"markdown.New", func() tabular.Table { return markdown.New() }, "markdown"},
		{"texttable.New", func() tabular.Table { return texttable.New() }, "text(default)"},
	}
	for _, s := range auto.ListStyles() {
		s := s
		cs = append(cs, c10Creator{"auto.New(" + s + ")", func() tabular.Table { return auto.New(s) }, selfFormatOfStyle(s)})
	}
	return cs
}

type c10Wrapper struct {
	name string
	wrap func(t tabular.Table) tabular.Table
	self string
}

var c10Wrappers = []c10Wrapper{
	{"csv.Wrap", func(t tabular.Table) tabular.Table { return csv.Wrap(t) }, "csv"},
	{"html.Wrap", func(t tabular.Table) tabular.Table { return thtml.Wrap(t) }, "html"},
	{"json.Wrap", func(t tabular.Table) tabular.Table { return tjson.Wrap(t) }, "json"},
	{"markdown.Wrap", func(t tabular.Table) tabular.Table { return markdown.Wrap(t) }, "markdown"},
	{"texttable.Wrap", func(t tabular.Table) tabular.Table { return texttable.Wrap(t) }, "text(default)"},
	{"auto.Wrap(ascii-simple)", func(t tabular.Table) tabular.Table { return auto.Wrap(t, "ascii-simple") }, ""},
}

type c10Entry struct {
	name string
	run  func(t tabular.Table) (string, error)
}

func viaTo(f func(t tabular.Table, b *bytes.Buffer) error) func(t tabular.Table) (string, error) {
	return func(t tabular.Table) (string, error) {
		var b bytes.Buffer
		err := f(t, &b)
		if err != nil {
			return "", err
		}
		return b.String(), nil
	}
}

type c10Target struct {
	name      string
	canonical func(t tabular.Table) (string, error)
	entries   []c10Entry
}

func c10Targets() []c10Target {
	light := func(t tabular.Table) *texttable.TextTable {
		tt := texttable.Wrap(t)
		tt.SetDecorationNamed("utf8-light")
		return tt
	}
	return []c10Target{
		{"csv", func(t tabular.Table) (string, error) { return csv.Wrap(t).Render() }, []c10Entry{
			{"csv.Render(t)", func(t tabular.Table) (string, error) { return csv.Render(t) }},
			{"csv.RenderTo(t,w)", viaTo(func(t tabular.Table, b *bytes.Buffer) error { return csv.RenderTo(t, b) })},
			{"csv.Wrap(t).Render()", func(t tabular.Table) (string, error) { return csv.Wrap(t).Render() }},
			{"csv.Wrap(t).RenderTo(w)", viaTo(func(t tabular.Table, b *bytes.Buffer) error { return csv.Wrap(t).RenderTo(b) })},
			{"auto.Render(t,csv)", func(t tabular.Table) (string, error) { return auto.Render(t, "csv") }},
			{"auto.RenderTo(t,w,CSV.x)", viaTo(func(t tabular.Table, b *bytes.Buffer) error { return auto.RenderTo(t, b, "CSV.x") })},
		}},
		{"json", func(t tabular.Table) (string, error) { return tjson.Wrap(t).Render() }, []c10Entry{
			{"json.Render(t)", func(t tabular.Table) (string, error) { return tjson.Render(t) }},
			{"json.RenderTo(t,w)", viaTo(func(t tabular.Table, b *bytes.Buffer) error { return tjson.RenderTo(t, b) })},
			{"json.Wrap(t).Render()", func(t tabular.Table) (string, error) { return tjson.Wrap(t).Render() }},
			{"json.Wrap(t).RenderTo(w)", viaTo(func(t tabular.Table, b *bytes.Buffer) error { return tjson.Wrap(t).RenderTo(b) })},
			{"auto.Render(t,json)", func(t tabular.Table) (string, error) { return auto.Render(t, "json") }},
			{"auto.RenderTo(t,w,json)", viaTo(func(t tabular.Table, b *bytes.Buffer) error { return auto.RenderTo(t, b, "json") })},
		}},
		{"markdown", func(t tabular.Table) (string, error) { return markdown.Wrap(t).Render() }, []c10Entry{
			{"markdown.Render(t)", func(t tabular.Table) (string, error) { return markdown.Render(t) }},
			{"markdown.RenderTo(t,w)", viaTo(func(t tabular.Table, b *bytes.Buffer) error { return markdown.RenderTo(t, b) })},
			{"markdown.Wrap(t).Render()", func(t tabular.Table) (string, error) { return markdown.Wrap(t).Render() }},
			{"markdown.Wrap(t).RenderTo(w)", viaTo(func(t tabular.Table, b *bytes.Buffer) error { return markdown.Wrap(t).RenderTo(b) })},
			{"auto.Render(t,markdown)", func(t tabular.Table) (string, error) { return auto.Render(t, "markdown") }},
			{"auto.RenderTo(t,w,Markdown)", viaTo(func(t tabular.Table, b *bytes.Buffer) error { return auto.RenderTo(t, b, "Markdown") })},
		}},
		{"html", func(t tabular.Table) (string, error) { return thtml.Wrap(t).Render() }, []c10Entry{
			{"html.Wrap(t).Render()", func(t tabular.Table) (string, error) { return thtml.Wrap(t).Render() }},
			{"html.Wrap(t).RenderTo(w)", viaTo(func(t tabular.Table, b *bytes.Buffer) error { return thtml.Wrap(t).RenderTo(b) })},
			{"auto.Render(t,html)", func(t tabular.Table) (string, error) { return auto.Render(t, "html") }},
			{"auto.RenderTo(t,w,html)", viaTo(func(t tabular.Table, b *bytes.Buffer) error { return auto.RenderTo(t, b, "html") })},
		}},
		{"text(default)", func(t tabular.Table) (string, error) { return texttable.Wrap(t).Render() }, []c10Entry{
			{"texttable.Render(t)", func(t tabular.Table) (string, error) { return texttable.Render(t) }},
			{"texttable.RenderTo(t,w)", viaTo(func(t tabular.Table, b *bytes.Buffer) error { return texttable.RenderTo(t, b) })},
			{"texttable.Wrap(t).Render()", func(t tabular.Table) (string, error) { return texttable.Wrap(t).Render() }},
			{"texttable.Wrap(t).RenderTo(w)", viaTo(func(t tabular.Table, b *bytes.Buffer) error { return texttable.Wrap(t).RenderTo(b) })},
			{"auto.Render(t,texttable)", func(t tabular.Table) (string, error) { return auto.Render(t, "texttable") }},
			{"auto.Render(t,utf8-heavy)", func(t tabular.Table) (string, error) { return auto.Render(t, "utf8-heavy") }},
			{"auto.RenderTo(t,w,texttable.utf8-heavy)", viaTo(func(t tabular.Table, b *bytes.Buffer) error { return auto.RenderTo(t, b, "texttable.utf8-heavy") })},
		}},
		{"text(utf8-light)", func(t tabular.Table) (string, error) { return light(t).Render() }, []c10Entry{
			{"Wrap+SetDecorationNamed.Render()", func(t tabular.Table) (string, error) { return light(t).Render() }},
			{"Wrap+SetDecorationNamed.RenderTo(w)", viaTo(func(t tabular.Table, b *bytes.Buffer) error { return light(t).RenderTo(b) })},
			{"auto.Render(t,utf8-light)", func(t tabular.Table) (string, error) { return auto.Render(t, "utf8-light") }},
			{"auto.RenderTo(t,w,texttable.utf8-light)", viaTo(func(t tabular.Table, b *bytes.Buffer) error { return auto.RenderTo(t, b, "texttable.utf8-light") })},
		}},
	}
}

// c10Deep: many wrappers of the measuring kinds around one table (each registers another callback on it).
func c10Deep(x *X) {
	x.Explore("deep-nesting", ExploreOpts{ShardDepth: 2, Bound: "nesting depth 1..14 of texttable/markdown wrappers (alternating or same kind), or 1..14 package-level renders first; then text and markdown targets through the OLDEST wrapper and through a fresh one"}, func(c *Chooser) {
		depth := 1 + c.Choose(14)
		mode := c.Choose(3) // 0 nest texttable, 1 nest alternating, 2 repeated package-level renders
		startMd := c.Bool()
		build := func(t tabular.Table) {
			t.AddHeaders("h1", "h2")
			t.AddRowItems("a", "bbbb")
			t.AddRowItems("cc")
		}
		canonT := tabular.New()
		build(canonT)
		wantText, _ := texttable.Wrap(canonT).Render()
		canonM := tabular.New()
		build(canonM)
		wantMd, _ := markdown.Wrap(canonM).Render()
		var oldestText *texttable.TextTable
		var oldestMd *markdown.MarkdownTable
		var t tabular.Table
		if startMd {
			oldestMd = markdown.New()
			t = oldestMd
		} else {
			oldestText = texttable.New()
			t = oldestText
		}
		c.Logf("start with %T; mode %d; depth %d; rows added AFTER the wrapping", t, mode, depth)
		outer := t
		for i := 0; i < depth; i++ {
			switch mode {
			case 0:
				outer = texttable.Wrap(outer)
			case 1:
				if i%2 == 0 {
					outer = markdown.Wrap(outer)
				} else {
					outer = texttable.Wrap(outer)
				}
			case 2:
				if i%2 == 0 {
					texttable.Render(t)
				} else {
					markdown.Render(t)
				}
			}
		}
		build(outer) // cells nobody has measured yet
		x.Transition(depth + 3)
		x.Nontrivial(fmt.Sprint(depth, mode, startMd))
		tags := []string{"many_wrappers_on_one_table", fmt.Sprintf("depth:%d", depth)}
		x.Clause("C10.same_bytes")
		if oldestText != nil {
			if out, err := oldestText.Render(); err != nil || out != wantText {
				x.Fail("C10.same_bytes", tags, "the table's original TextTable wrapper, after %d further wrappers/renders (mode %d), renders (err %v)\n%s\nwant\n%s", depth, mode, err, out, wantText)
				return
			}
		}
		if oldestMd != nil {
			if out, err := oldestMd.Render(); err != nil || out != wantMd {
				x.Fail("C10.same_bytes", tags, "the table's original MarkdownTable wrapper, after %d further wrappers/renders (mode %d), renders (err %v)\n%s\nwant\n%s", depth, mode, err, out, wantMd)
				return
			}
		}
		if out, err := texttable.Render(outer); err != nil || out != wantText {
			x.Fail("C10.same_bytes", tags, "texttable.Render of the outermost wrapper (depth %d, mode %d) gives (err %v)\n%s\nwant\n%s", depth, mode, err, out, wantText)
			return
		}
		if out, err := markdown.Render(outer); err != nil || out != wantMd {
			x.Fail("C10.same_bytes", tags, "markdown.Render of the outermost wrapper (depth %d, mode %d) gives (err %v)\n%s\nwant\n%s", depth, mode, err, out, wantMd)
		}
	})
}

func runC10(x *X) {
	runC10FromCallback(x)
	runC10EditBetweenRenders(x)
	runC10Overlapping(x)
	c10Siblings(x)
	c10Deep(x)
	tables := c10Tables()
	creators := c10Creators()
	targets := c10Targets()
	maxChain := x.Pick(2, 3)
	// canonical outputs per (table, target), computed once per worker
	type canon struct {
		out string
		err error
	}
	canonical := map[[2]int]canon{}
	for ti, tb := range tables {
		for gi, tg := range targets {
			t := tabular.New()
			tb.build(t)
			out, err := tg.canonical(t)
			canonical[[2]int{ti, gi}] = canon{out, err}
		}
	}
	x.Explore("routes", ExploreOpts{ShardDepth: 3, Bound: fmt.Sprintf("%d tables x %d creation paths x wrapper chains of length <=%d over %d wrappers x %d targets x all entry points", len(tables), len(creators), maxChain, len(c10Wrappers), len(targets))}, func(c *Chooser) {
		ti := c.Choose(len(tables))
		ci := c.Choose(len(creators))
		gi := c.Choose(len(targets))
		var chain []int
		for len(chain) < maxChain {
			k := c.Choose(len(c10Wrappers) + 1)
			if k == 0 {
				break
			}
			chain = append(chain, k-1)
		}
		tb, cr, tg := tables[ti], creators[ci], targets[gi]
		var names []string
		for _, k := range chain {
			names = append(names, c10Wrappers[k].name)
		}
		c.Logf("table %q created by %s, wrapped by %v, target %s", tb.name, cr.name, names, tg.name)
		x.Transition(1 + len(chain))
		if ci != 0 || len(chain) > 0 {
			x.Nontrivial(fmt.Sprint(ti, ci, gi, chain))
		}
		x.State(fmt.Sprint(ci, chain, gi))
		tags := []string{"target:" + tg.name, "creator:" + cr.name}
		if ci != 0 || len(chain) > 0 {
			if strings.HasPrefix(tg.name, "text") || tg.name == "markdown" {
				tags = append(tags, "text_or_markdown_wrap_of_noncore_table")
			}
		}
		want := canonical[[2]int{ti, gi}]
		for _, en := range tg.entries {
			// a fresh table per entry point, so that nothing carries over
			var t tabular.Table
			var out string
			var err error
			if p, val, site := Safe(func() {
				t = cr.mk()
				tb.build(t)
				for _, k := range chain {
					t = c10Wrappers[k].wrap(t)
				}
				out, err = en.run(t)
			}); p {
				x.FailSite("C10.no_panic", append(tags, "panic"), site, "%s panicked: %v; table %q created by %s wrapped by %v", en.name, val, tb.name, cr.name, names)
				continue
			}
			x.Clause("C10.errors_agree")
			if (err != nil) != (want.err != nil) {
				x.Fail("C10.errors_agree", tags, "%s: error=%v but the canonical route gives error=%v; table %q created by %s wrapped by %v", en.name, err, want.err, tb.name, cr.name, names)
				continue
			}
			x.Clause("C10.same_bytes")
			if out != want.out {
				x.Fail("C10.same_bytes", tags, "%s differs from tabular.New()+Wrap(t).Render(); table %q created by %s wrapped by %v\ngot:\n%s\nwant:\n%s", en.name, tb.name, cr.name, names, out, want.out)
				continue
			}
		}
		// the object itself, when it is a renderer of the target format, rendered without any further wrapping
		self := cr.self
		if len(chain) > 0 {
			self = c10Wrappers[chain[len(chain)-1]].self
		}
		if self == tg.name {
			var out, out2 string
			var err, err2 error
			if p, val, site := Safe(func() {
				t := cr.mk()
				tb.build(t)
				for _, k := range chain {
					t = c10Wrappers[k].wrap(t)
				}
				rt, ok := t.(auto.RenderTable)
				if !ok {
					panic(fmt.Sprintf("harness: %T is not a RenderTable", t))
				}
				out, err = rt.Render()
				var b bytes.Buffer
				err2 = rt.RenderTo(&b)
				out2 = b.String()
			}); p {
				x.FailSite("C10.no_panic", append(tags, "panic"), site, "the created object's own Render panicked: %v; table %q created by %s wrapped by %v", val, tb.name, cr.name, names)
			} else {
				x.Clause("C10.same_bytes")
				if out != want.out || (err != nil) != (want.err != nil) || (err == nil && out2 != want.out) || (err2 != nil) != (want.err != nil) {
					x.Fail("C10.same_bytes", append(tags, "own_render_of_created_object"), "the object's own Render()/RenderTo() (no further wrapping) differs from tabular.New()+Wrap(t).Render(); table %q created by %s wrapped by %v\nRender (err %v):\n%s\nRenderTo (err %v):\n%s\nwant (err %v):\n%s", tb.name, cr.name, names, err, out, err2, out2, want.err, want.out)
				}
			}
		}
		x.Outcome(fmt.Sprint(ti, gi, want.err != nil))
	})
}
