package main

// Families "settings-from-render-callback" (C04, C07) and "content-from-render-callback" (C06, C10): a render-time
// callback registered by the user changes, at the start of the pass, what is about to be rendered - a column's
// alignment or skipable flag, or a cell's text (item changed earlier without Update; the callback calls Update).
// Render callbacks exist to prepare the table for rendering: the render that invoked them must show the result.

import (
	"fmt"
	"html/template"
	"io"
	"strings"

	"go.pennock.tech/tabular"
	"go.pennock.tech/tabular/auto"
	"go.pennock.tech/tabular/csv"
	thtml "go.pennock.tech/tabular/html"
	tjson "go.pennock.tech/tabular/json"
	"go.pennock.tech/tabular/markdown"
	"go.pennock.tech/tabular/properties"
	"go.pennock.tech/tabular/properties/align"
	"go.pennock.tech/tabular/texttable"
)

type funcCB struct {
	f func(po tabular.PropertyOwner)
}

func (c funcCB) UpdateProperties(po tabular.PropertyOwner) error { c.f(po); return nil }

// ---- C04: alignment set from a callback
func runC04FromCallback(x *X) {
	vals := []interface{}{align.Right, align.Center, align.Left}
	x.Explore("alignment-from-render-callback", ExploreOpts{ShardDepth: 2, Bound: "a pre-cell ITSELF callback on the table | column 0 | column 1 sets the alignment of column 0 | 1 | 2 to right/centre/left (previous value unset or another one) x registered before | after Wrap x 1-2 renders x 2 decorations"}, func(c *Chooser) {
		owner := c.Choose(3)
		target := c.Choose(3)
		v := vals[c.Choose(len(vals))]
		prev := []interface{}{nil, align.Right, align.Center}[c.Choose(3)]
		regFirst := c.Bool()
		dc := []DecorChoice{namedDecor("ascii-simple"), namedDecor("utf8-light")}[c.Choose(2)]
		t := tabular.New()
		t.AddHeaders("wide-header-1", "h2")
		t.AddRowItems("a", "bb-wide-cell")
		t.AddRowItems("c\nd", "e")
		tg := &TGrid{HasHeader: true, Header: []TCell{{Text: "wide-header-1"}, {Text: "h2"}}, Rows: []TRow{{Cells: []TCell{{Text: "a"}, {Text: "bb-wide-cell"}}}, {Cells: []TCell{{Text: "c\nd"}, {Text: "e"}}}}, Aligns: []interface{}{nil, nil, nil}}
		if prev != nil {
			t.Column(target).SetProperty(align.PropertyType, prev)
			tg.Aligns[target] = prev
		}
		cb := funcCB{func(po tabular.PropertyOwner) { t.Column(target).SetProperty(align.PropertyType, v) }}
		reg := func(tb tabular.Table) {
			var po tabular.PropertyOwner = tb
			if owner > 0 {
				po = t.Column(owner - 1)
			}
			if err := registerCB(tb, po, 1, 0, cb); err != nil {
				panic("harness: registering PRECELL/ITSELF: " + err.Error())
			}
		}
		if regFirst {
			reg(t)
		}
		tt := texttable.Wrap(t)
		if err := dc.Apply(tt); err != nil {
			panic("harness: " + err.Error())
		}
		if !regFirst {
			reg(tt)
		}
		c.Logf("pre-cell ITSELF callback on %s sets Column(%d) alignment to %v (was %v); registered %s Wrap; %s", []string{"the table", "column 0", "column 1"}[owner], target, v, prev, map[bool]string{true: "before", false: "after"}[regFirst], dc.Name)
		tg.Aligns[target] = v
		for pass := 0; pass < 1+c.Choose(2); pass++ {
			x.Transition(1)
			var out string
			var err error
			if pn, val, site := Safe(func() { out, err = tt.Render() }); pn {
				x.FailSite("C04.no_panic", []string{"from_render_callback", "panic"}, site, "render panicked: %v", val)
				return
			}
			judgeTextTable(x, "C04", tg, dc, []string{"alignment_set_by_a_render_callback", fmt.Sprintf("target_column:%d", target)}, out, err)
		}
		x.State(fmt.Sprint(owner, target, v, prev, regFirst, dc.Name))
		x.Nontrivial(fmt.Sprint(c.path))
	})
}

// ---- C07: skipable / cell value set from a callback
func runC07FromCallback(x *X) {
	x.Explore("settings-from-render-callback", ExploreOpts{ShardDepth: 2, Bound: "a pre-cell ITSELF callback on the table | column 0 | column 2 sets skipable {true, false, \"yes\"} on column 0 | 2 (previous value unset | the opposite) x 1-2 renders"}, func(c *Chooser) {
		owner := c.Choose(3)
		target := []int{0, 2}[c.Choose(2)]
		v := []interface{}{true, false, "yes"}[c.Choose(3)]
		prev := []interface{}{nil, true, false}[c.Choose(3)]
		jt := tjson.New()
		jt.AddHeaders("k1", "k2")
		jt.AddRowItems("v1", "")
		jt.AddRowItems("v2", "x")
		t := &c07Table{hasHeader: true, header: []string{"k1", "k2"}, rows: [][]c07Cell{{{"v1", "str"}, {"", `""`}}, {{"v2", "str"}, {"x", "str"}}}, skip: map[int]interface{}{}}
		if prev != nil {
			jt.Column(target).SetProperty(properties.Skipable, prev)
		}
		var po tabular.PropertyOwner = jt.Table
		if owner == 1 {
			po = jt.Column(0)
		} else if owner == 2 {
			po = jt.Column(2)
		}
		if err := registerCB(jt, po, 1, 0, funcCB{func(tabular.PropertyOwner) { jt.Column(target).SetProperty(properties.Skipable, v) }}); err != nil {
			panic("harness: registering PRECELL/ITSELF: " + err.Error())
		}
		t.skip[target] = v
		t.desc = fmt.Sprintf("headers [k1 k2], rows [v1 \"\"] [v2 x]; a pre-cell callback on owner %d sets Column(%d).skipable=%v (was %v)", owner, target, v, prev)
		c.Logf("%s", t.desc)
		for pass := 0; pass < 1+c.Choose(2); pass++ {
			x.Transition(1)
			var out string
			var err error
			if p, val, site := Safe(func() { out, err = jt.Render() }); p {
				x.FailSite("C07.no_panic", []string{"from_render_callback", "panic"}, site, "json Render panicked: %v", val)
				return
			}
			c07Judge(x, t, []string{"skipable_set_by_a_render_callback"}, out, err)
		}
		x.State(t.desc)
		x.Nontrivial(t.desc)
	})
}

// ---- C06: header / body cell refreshed from a callback
func runC06FromCallback(x *X) {
	x.Explore("content-from-render-callback", ExploreOpts{ShardDepth: 2, Bound: "pointer items in a header and a body cell changed without Update; a pre-cell CELL callback on the table | column 1 | the first row calls Update; with/without row-class generator; 1-2 renders on one wrapper"}, func(c *Chooser) {
		owner := c.Choose(3)
		gen := c.Bool()
		ht := thtml.New()
		hItem, setH := mkItem(mS, true, ItemF{S: "h-old"})
		bItem, setB := mkItem(mS, true, ItemF{S: "b-old"})
		ht.AddHeaders(hItem, "h2")
		ht.AddRowItems(bItem, "x")
		ht.AddRowItems("y")
		g := &Grid{HasHeader: true, Header: []string{"h-old", "h2"}, Rows: []GridRow{{Cells: []string{"b-old", "x"}}, {Cells: []string{"y"}}}}
		in := &c06Input{g: g}
		var calls []int
		if gen {
			ht.SetRowClassGenerator(func(n int, ctx interface{}) template.HTMLAttr {
				calls = append(calls, n)
				return template.HTMLAttr(fmt.Sprintf("A%d", n))
			}, nil)
			in.gen, in.genTag = true, "A"
		}
		var po tabular.PropertyOwner = ht.Table
		switch owner {
		case 1:
			po = ht.Column(1)
		case 2:
			po = ht.AllRows()[0]
		}
		if err := registerCB(ht, po, 1, 1, funcCB{func(p tabular.PropertyOwner) {
			if cp, ok := p.(*tabular.Cell); ok {
				cp.Update()
			}
		}}); err != nil {
			panic("harness: registering PRECELL/CELL: " + err.Error())
		}
		c.Logf("html table; updating pre-cell CELL callback on %s; generator %v", []string{"the table", "column 1", "row 1"}[owner], gen)
		for pass := 0; pass < 1+c.Choose(2); pass++ {
			nh, nb := fmt.Sprintf("h<new%d>", pass), fmt.Sprintf("b&new%d", pass)
			setH(ItemF{S: nh})
			setB(ItemF{S: nb})
			// the table's CELL callbacks reach header cells as well; a column's or a row's do not
			if owner == 0 {
				g.Header[0] = nh
			}
			g.Rows[0].Cells[0] = nb
			c.Logf("items changed to %q / %q without Update; Render", nh, nb)
			x.Transition(1)
			calls = nil
			var out string
			var err error
			if p, val, site := Safe(func() { out, err = ht.Render() }); p {
				x.FailSite("C06.no_panic", []string{"from_render_callback", "panic"}, site, "html Render panicked: %v", val)
				return
			}
			x.Clause("C06.succeeds")
			if err != nil {
				x.Fail("C06.succeeds", []string{"from_render_callback"}, "html Render failed: %v", err)
				return
			}
			if !c06Validate(x, in, g, []string{"content_refreshed_by_a_render_callback"}, out, calls, pass) {
				return
			}
		}
		x.State(fmt.Sprint(owner, gen))
		x.Nontrivial(fmt.Sprint(c.path))
	})
}

// ---- C10: package-level functions vs wrappers when a callback refreshes cells
func runC10FromCallback(x *X) {
	type route struct {
		name string
		pkg  func(t tabular.Table) (string, error)
		wrap func(t tabular.Table) (string, error)
	}
	routes := []route{
		{"csv", csv.Render, func(t tabular.Table) (string, error) { return csv.Wrap(t).Render() }},
		{"json", tjson.Render, func(t tabular.Table) (string, error) { return tjson.Wrap(t).Render() }},
		{"markdown", markdown.Render, func(t tabular.Table) (string, error) { return markdown.Wrap(t).Render() }},
		{"text", texttable.Render, func(t tabular.Table) (string, error) { return texttable.Wrap(t).Render() }},
	}
	x.Explore("routes-with-refreshing-callback", ExploreOpts{ShardDepth: 2, Bound: "4 formats x {package-level Render, Wrap(t).Render, auto.Render} on identically built tables whose pointer items were changed without Update and carry a pre-cell CELL callback (table | column 1) that calls Update; new text wider | narrower | two lines"}, func(c *Chooser) {
		r := routes[c.Choose(len(routes))]
		owner := c.Choose(2)
		nt := []string{"much-wider-than-before", "n", "two\nlines"}[c.Choose(3)]
		build := func() tabular.Table {
			t := tabular.New()
			it, set := mkItem(mS, true, ItemF{S: "before"})
			t.AddHeaders("h1", "h2")
			t.AddRowItems(it, "x")
			t.AddRowItems("y", "zz")
			var po tabular.PropertyOwner = t
			if owner == 1 {
				po = t.Column(1)
			}
			if err := registerCB(t, po, 1, 1, funcCB{func(p tabular.PropertyOwner) {
				if cp, ok := p.(*tabular.Cell); ok {
					cp.Update()
				}
			}}); err != nil {
				panic("harness: " + err.Error())
			}
			set(ItemF{S: nt})
			return t
		}
		c.Logf("format %s; item changed to %q without Update; updating pre-cell CELL callback on %s", r.name, nt, []string{"the table", "column 1"}[owner])
		x.Transition(1)
		x.Nontrivial(fmt.Sprint(r.name, owner, nt))
		var a, b string
		var ea, eb error
		if p, val, site := Safe(func() { a, ea = r.wrap(build()); b, eb = r.pkg(build()) }); p {
			x.FailSite("C10.no_panic", []string{"refreshing_callback", "panic"}, site, "%s panicked: %v", r.name, val)
			return
		}
		x.Clause("C10.same_bytes")
		if a != b || (ea != nil) != (eb != nil) {
			x.Fail("C10.same_bytes", []string{"refreshing_render_callback", "format:" + r.name}, "%s.Render(t) gives (err %v)\n%s\nbut %s.Wrap(t).Render() on an identically built table gives (err %v)\n%s", r.name, eb, b, r.name, ea, a)
		}
	})
}

// ---- C10: overlapping html renders of tables that came from different creation paths
func runC10Overlapping(x *X) {
	type creator struct {
		name string
		mk   func() (tabular.Table, func(w io.Writer) error)
	}
	fill := func(t tabular.Table, tag string) {
		t.AddHeaders(tag+"-h1", tag+"-h2")
		t.AddRowItems(tag+"-a", tag+"<b>")
		t.AddSeparator()
		t.AddRowItems(tag + "-c")
	}
	creators := func(tag string) []creator {
		return []creator{
			{"html.New()", func() (tabular.Table, func(io.Writer) error) { h := thtml.New(); fill(h, tag); return h, h.RenderTo }},
			{"html.Wrap(tabular.New())", func() (tabular.Table, func(io.Writer) error) {
				t := tabular.New()
				fill(t, tag)
				h := thtml.Wrap(t)
				return t, h.RenderTo
			}},
			{"auto.New(html)", func() (tabular.Table, func(io.Writer) error) {
				a := auto.New("html")
				fill(a, tag)
				return a, a.RenderTo
			}},
			{"auto.RenderTo(tabular.New(), html)", func() (tabular.Table, func(io.Writer) error) {
				t := tabular.New()
				fill(t, tag)
				return t, func(w io.Writer) error { return auto.RenderTo(t, w, "html") }
			}},
		}
	}
	x.Explore("overlapping-html-renders", ExploreOpts{ShardDepth: 2, Bound: "4 creation paths for the outer x 4 for the inner html table (different content): the outer render's writer renders the inner table before accepting Write #1 | #3 | every Write; both outputs must equal the canonical route's"}, func(c *Chooser) {
		oc, ic := c.Choose(4), c.Choose(4)
		at := []int{1, 3, 0}[c.Choose(3)]
		canon := func(tag string) string {
			t := tabular.New()
			fill(t, tag)
			s, _ := thtml.Wrap(t).Render()
			return s
		}
		_, outerTo := creators("outer")[oc].mk()
		_, innerTo := creators("inner")[ic].mk()
		c.Logf("outer html table via %s, its writer renders an inner html table made via %s before accepting Write #%d (0 = every)", creators("o")[oc].name, creators("i")[ic].name, at)
		x.Transition(1)
		x.Nontrivial(fmt.Sprint(oc, ic, at))
		w := &c14NestWriter{at: at, inner: func() (string, error) {
			var sb strings.Builder
			err := innerTo(&sb)
			return sb.String(), err
		}}
		var err error
		if p, val, site := Safe(func() { err = outerTo(w) }); p {
			x.FailSite("C10.no_panic", []string{"overlapping_html_renders", "panic"}, site, "panicked: %v", val)
			return
		}
		tags := []string{"overlapping_html_renders", "outer:" + creators("o")[oc].name, "inner:" + creators("i")[ic].name}
		x.Clause("C10.same_bytes")
		if err != nil || w.buf.String() != canon("outer") {
			x.Fail("C10.same_bytes", tags, "the outer table rendered (err %v)\n%s\nbut tabular.New()+html.Wrap(t).Render() of the same content gives\n%s", err, w.buf.String(), canon("outer"))
			return
		}
		for _, o := range w.outs {
			if o != canon("inner") {
				x.Fail("C10.same_bytes", append(tags, "inner_render"), "the inner table rendered\n%s\nbut the canonical route gives\n%s", o, canon("inner"))
				return
			}
		}
	})
}

// ---- C06: the table's SHAPE changes inside the render: a table-level render-time callback on the table itself
// (the "fill me in lazily" idiom) adds the header, rows or a separator the first time it runs.  The html output must
// mirror the table as it stands once its render callbacks have run - the same table every other renderer shows.
func runC06ShapeFromCallback(x *X) {
	x.Explore("shape-from-render-callback", ExploreOpts{ShardDepth: 2, Bound: "html table with {no header, 2 headers} and 0-1 rows; a table-level ITSELF callback at {pre-cell, render} time adds, on its first run, {headers (when none), one row, a separator and two rows, headers and a row}; with/without row-class generator; 1-2 renders on one wrapper"}, func(c *Chooser) {
		hasHeader := c.Bool()
		nrows := c.Choose(2)
		when := 1 + c.Choose(2)
		add := c.Choose(4) // 0 headers, 1 one row, 2 separator + two rows, 3 headers + row
		gen := c.Bool()
		if hasHeader && (add == 0 || add == 3) {
			add = 1
		}
		ht := thtml.New()
		g := &Grid{}
		if hasHeader {
			ht.AddHeaders("h<1>", "h2")
			g.HasHeader, g.Header = true, []string{"h<1>", "h2"}
		}
		for i := 0; i < nrows; i++ {
			ht.AddRowItems("r&1", "x")
			g.Rows = append(g.Rows, GridRow{Cells: []string{"r&1", "x"}})
		}
		in := &c06Input{g: g}
		var calls []int
		if gen {
			ht.SetRowClassGenerator(func(n int, ctx interface{}) template.HTMLAttr {
				calls = append(calls, n)
				return template.HTMLAttr(fmt.Sprintf("A%d", n))
			}, nil)
			in.gen, in.genTag = true, "A"
		}
		done := false
		if err := registerCB(ht, ht.Table, when, 0, funcCB{func(p tabular.PropertyOwner) {
			if done {
				return
			}
			done = true
			if add == 0 || add == 3 {
				ht.AddHeaders("late<h>", "late2")
				g.HasHeader, g.Header = true, []string{"late<h>", "late2"}
			}
			if add == 1 || add == 3 {
				ht.AddRowItems("late&row", "\"q\"")
				g.Rows = append(g.Rows, GridRow{Cells: []string{"late&row", "\"q\""}})
			}
			if add == 2 {
				ht.AddSeparator()
				ht.AddRowItems("after-sep")
				ht.AddRowItems("last", "<b>")
				g.Rows = append(g.Rows, GridRow{Sep: true}, GridRow{Cells: []string{"after-sep"}}, GridRow{Cells: []string{"last", "<b>"}})
			}
		}}); err != nil {
			panic("harness: registering table/ITSELF: " + err.Error())
		}
		c.Logf("html table header=%v rows=%d; table-level ITSELF callback at time %d adds shape %d on its first run; generator %v", hasHeader, nrows, when, add, gen)
		for pass := 0; pass < 1+c.Choose(2); pass++ {
			x.Transition(1)
			calls = nil
			var out string
			var err error
			if p, val, site := Safe(func() { out, err = ht.Render() }); p {
				x.FailSite("C06.no_panic", []string{"shape_from_render_callback", "panic"}, site, "html Render panicked: %v", val)
				return
			}
			x.Clause("C06.succeeds")
			if err != nil {
				x.Fail("C06.succeeds", []string{"shape_from_render_callback"}, "html Render failed: %v", err)
				return
			}
			if !c06Validate(x, in, g, []string{"table_shape_changed_by_a_render_callback"}, out, calls, pass) {
				return
			}
		}
		x.State(fmt.Sprint(hasHeader, nrows, when, add, gen))
		x.Nontrivial(fmt.Sprint(c.path))
	})
}

// ---- C10: the same LIFE of a table (render, edit a cell in place + Update, render again) under every creation
// path: whatever a creator's wrapper remembered from the first render must not make the second one differ.
func runC10EditBetweenRenders(x *X) {
	type fmtR struct {
		name string
		pkg  func(t tabular.Table) (string, error)
	}
	fmts := []fmtR{{"text", texttable.Render}, {"markdown", markdown.Render}, {"csv", csv.Render}, {"html", func(t tabular.Table) (string, error) { return thtml.Wrap(t).Render() }}, {"json", tjson.Render}}
	type creator struct {
		name string
		mk   func() tabular.Table
	}
	creators := []creator{
		{"texttable.New", func() tabular.Table { return texttable.New() }},
		{"markdown.New", func() tabular.Table { return markdown.New() }},
		{"auto.New(ascii-simple)", func() tabular.Table { return auto.New("ascii-simple") }},
		{"texttable.Wrap(markdown.New())", func() tabular.Table { return texttable.Wrap(markdown.New()) }},
		{"csv.New", func() tabular.Table { return csv.New() }},
	}
	edits := []string{"AFTER!", "a\nb", "wider-than-before", "", "ｗｗｗ"} // "before" is 6 cells on 1 line: same size, two lines, wider, empty, same width other runes
	x.Explore("edit-between-renders", ExploreOpts{ShardDepth: 2, Bound: fmt.Sprintf("%d creation paths compared with tabular.New: build; render as {nothing, %d formats}; pointer items of a header and a body cell edited in place to %d texts (same size, two lines, wider, empty, same width) + Update; render as each of %d formats through the package-level function", len(creators), len(fmts), len(edits), len(fmts))}, func(c *Chooser) {
		cr := creators[c.Choose(len(creators))]
		first := c.Choose(len(fmts) + 1)
		ed := edits[c.Choose(len(edits))]
		second := fmts[c.Choose(len(fmts))]
		life := func(t tabular.Table) (string, error) {
			hIt, setH := mkItem(mS, true, ItemF{S: "before"})
			bIt, setB := mkItem(mS, true, ItemF{S: "before"})
			t.AddHeaders("h1", hIt)
			t.AddRowItems(bIt, "x")
			t.AddRowItems("y", "zz")
			if first > 0 {
				if _, err := fmts[first-1].pkg(t); err != nil {
					return "", fmt.Errorf("first render: %v", err)
				}
			}
			setH(ItemF{S: ed})
			setB(ItemF{S: ed})
			t.Headers()[1].Update()
			cp, err := t.CellAt(tabular.CellLocation{Row: 1, Column: 1})
			if err != nil {
				panic("harness: CellAt: " + err.Error())
			}
			cp.Update()
			return second.pkg(t)
		}
		fn := "nothing"
		if first > 0 {
			fn = fmts[first-1].name
		}
		c.Logf("creator %s; first render %s; both items edited to %q + Update; second render %s", cr.name, fn, ed, second.name)
		x.Transition(3)
		x.Nontrivial(fmt.Sprint(cr.name, first, ed, second.name))
		var a, b string
		var ea, eb error
		if p, val, site := Safe(func() { a, ea = life(tabular.New()); b, eb = life(cr.mk()) }); p {
			x.FailSite("C10.no_panic", []string{"edit_between_renders", "panic"}, site, "panicked: %v", val)
			return
		}
		x.Clause("C10.same_bytes")
		if a != b || (ea != nil) != (eb != nil) {
			x.Fail("C10.same_bytes", []string{"edit_between_renders", "format:" + second.name, "creator:" + cr.name}, "after render(%s), edit to %q + Update: %s.Render of a tabular.New table gives (err %v)\n%s\nbut of a %s table with the same life gives (err %v)\n%s", fn, ed, second.name, ea, a, cr.name, eb, b)
		}
	})
}
