package main

// C10, family "sibling-wrappers": several renderer wrappers around ONE table, their settings changed and
// renders issued in any order.  Every render must give the bytes of the canonical route (a fresh identical
// table, a fresh wrapper with the settings that wrapper has now): what one wrapper was told, or has
// rendered, must not leak into its siblings or into the package-level/auto entry points.

import (
	"fmt"

	"go.pennock.tech/tabular"
	"go.pennock.tech/tabular/auto"
	thtml "go.pennock.tech/tabular/html"
	"go.pennock.tech/tabular/markdown"
	"go.pennock.tech/tabular/properties/align"
	"go.pennock.tech/tabular/texttable"
)

func c10Siblings(x *X) {
	depth := x.Pick(5, 6)
	decNames := []string{"utf8-light", "ascii-simple", "utf8-double"}
	type state struct {
		rows    int
		aligned bool
	}
	build := func(t tabular.Table, st state) {
		t.AddHeaders("h1", "h2")
		t.AddRowItems("a", "bb")
		t.AddSeparator()
		t.AddRowItems("ccc")
		for i := 0; i < st.rows; i++ {
			t.AddRowItems(fmt.Sprintf("n%d", i), "x\ny")
		}
		if st.aligned {
			t.Column(2).SetProperty(align.PropertyType, align.Right)
		}
	}
	x.Explore("sibling-wrappers", ExploreOpts{ShardDepth: 2, Bound: fmt.Sprintf("one table; two texttable wrappers, two html wrappers, one markdown wrapper around it; all sequences of <=%d operations {A/B.SetDecorationNamed(3 names), A/B.Render, texttable.Render(t), auto.Render(t, 2 styles), htmlA.Caption=, htmlA/B.Render, markdown.Render, table grows, column 2 right-aligned}", depth)}, func(c *Chooser) {
		t := tabular.New()
		st := state{}
		build(t, st)
		ttA, ttB := texttable.Wrap(t), texttable.Wrap(t)
		htA, htB := thtml.Wrap(t), thtml.Wrap(t)
		md := markdown.Wrap(t)
		decA, decB := "", "" // "" = default
		capA := ""
		var ops []string
		renders := 0
		fresh := func() tabular.Table { f := tabular.New(); build(f, st); return f }
		textRef := func(dec string) (string, error) {
			w := texttable.Wrap(fresh())
			if dec != "" {
				if _, err := w.SetDecorationNamed(dec); err != nil {
					return "", err
				}
			}
			return w.Render()
		}
		judge := func(what string, got string, gerr error, want string, werr error) bool {
			renders++
			x.Clause("C10.same_bytes")
			tags := []string{"sibling_wrappers", "entry:" + what}
			if renders > 1 {
				tags = append(tags, "after_other_renders_or_settings")
			}
			if got != want || (gerr != nil) != (werr != nil) {
				x.Fail("C10.same_bytes", tags, "%s after %v gives (err %v)\n%s\nbut a fresh identical table through a fresh wrapper with the same settings gives (err %v)\n%s", what, ops, gerr, got, werr, want)
				return false
			}
			return true
		}
		for step := 0; step < depth; step++ {
			k := c.Choose(19)
			if k == 0 {
				break
			}
			x.Transition(1)
			var name string
			ok := true
			p, val, site := Safe(func() {
				switch {
				case k >= 1 && k <= 3:
					decA = decNames[k-1]
					name = fmt.Sprintf("ttA.SetDecorationNamed(%s)", decA)
					ttA.SetDecorationNamed(decA)
				case k >= 4 && k <= 6:
					decB = decNames[k-4]
					name = fmt.Sprintf("ttB.SetDecorationNamed(%s)", decB)
					ttB.SetDecorationNamed(decB)
				case k == 7:
					name = "ttA.Render()"
					got, gerr := ttA.Render()
					want, werr := textRef(decA)
					ok = judge(name, got, gerr, want, werr)
				case k == 8:
					name = "ttB.Render()"
					got, gerr := ttB.Render()
					want, werr := textRef(decB)
					ok = judge(name, got, gerr, want, werr)
				case k == 9:
					name = "texttable.Render(t)"
					got, gerr := texttable.Render(t)
					want, werr := textRef("")
					ok = judge(name, got, gerr, want, werr)
				case k == 10 || k == 11:
					style := []string{"texttable.utf8-light", "utf8-double"}[k-10]
					name = fmt.Sprintf("auto.Render(t, %q)", style)
					got, gerr := auto.Render(t, style)
					want, werr := textRef([]string{"utf8-light", "utf8-double"}[k-10])
					ok = judge(name, got, gerr, want, werr)
				case k == 12:
					capA = fmt.Sprintf("cap%d", step)
					name = fmt.Sprintf("htA.Caption = %q", capA)
					htA.Caption = capA
				case k == 13 || k == 14:
					w, cap := htA, capA
					name = "htA.Render()"
					if k == 14 {
						w, cap, name = htB, "", "htB.Render()"
					}
					got, gerr := w.Render()
					ref := thtml.Wrap(fresh())
					ref.Caption = cap
					want, werr := ref.Render()
					ok = judge(name, got, gerr, want, werr)
				case k == 15:
					name = "md.Render()"
					got, gerr := md.Render()
					want, werr := markdown.Wrap(fresh()).Render()
					ok = judge(name, got, gerr, want, werr)
				case k == 16:
					if st.rows < 2 {
						name = "t.AddRowItems(n, two-line)"
						t.AddRowItems(fmt.Sprintf("n%d", st.rows), "x\ny")
						st.rows++
					} else {
						name = "(table already grown twice)"
					}
				case k == 17:
					name = "t.Column(2) right-aligned"
					t.Column(2).SetProperty(align.PropertyType, align.Right)
					st.aligned = true
				case k == 18:
					name = "t.Column(2) alignment unset"
					t.Column(2).SetProperty(align.PropertyType, nil)
					st.aligned = false
				}
			})
			c.Logf("%s", name)
			ops = append(ops, name)
			if p {
				x.FailSite("C10.no_panic", []string{"sibling_wrappers", "panic"}, site, "%s panicked: %v after %v", name, val, ops)
				return
			}
			if !ok {
				return
			}
		}
		x.State(fmt.Sprint(ops))
		if renders > 1 {
			x.Nontrivial(fmt.Sprint(ops))
		}
	})
}
