package main

// C10, family "sibling-wrappers": several renderer wrappers around ONE table, their settings changed and
// renders issued in any order.  Every render must give the bytes of the canonical route (a fresh identical
// table, a fresh wrapper with the settings that wrapper has now): what one wrapper was told, or has
// rendered, must not leak into its siblings or into the package-level/auto entry points.

import (
	"fmt"

	"go.pennock.tech/tabular"
	"go.pennock.tech/tabular/auto"
	thtml "go.pennock.tech/tabular/html"
	"go.pennock.tech/tabular/markdown"
	"go.pennock.tech/tabular/properties/align"
	"go.pennock.tech/tabular/texttable"
	"go.pennock.tech/tabular/texttable/decoration"
)

func c10Siblings(x *X) {
	depth := x.Pick(4, 5)
	decNames := []string{"utf8-light", "ascii-simple", "c10-deco"}
	type state struct {
		rows    int
		aligned bool
	}
	build := func(t tabular.Table, st state) {
		t.AddHeaders("h1", "h2")
		t.AddRowItems("a", "b") // narrower than its header: alignment of column 2 is visible from the start
		t.AddSeparator()
		t.AddRowItems("ccc")
		for i := 0; i < st.rows; i++ {
			t.AddRowItems(fmt.Sprintf("n%d", i), "x\ny")
		}
		if st.aligned {
			t.Column(2).SetProperty(align.PropertyType, align.Right)
		}
	}
	x.Explore("sibling-wrappers", ExploreOpts{ShardDepth: 2, Bound: fmt.Sprintf("one table; two texttable wrappers, two html wrappers, one markdown wrapper around it; all sequences of <=%d operations {A/B.SetDecorationNamed(3 names, one of them re-registered on the way), A/B.Render, texttable.Render(t), auto.Render(t, 4 styles), re-register a decoration name with another value, htmlA.Caption=, htmlA/B.Render, markdown.Render, table grows, column 2 aligned / unset}", depth)}, func(c *Chooser) {
		t := tabular.New()
		st := state{}
		build(t, st)
		ttA, ttB := texttable.Wrap(t), texttable.Wrap(t)
		htA, htB := thtml.Wrap(t), thtml.Wrap(t)
		md := markdown.Wrap(t)
		var decA, decB *decoration.Decoration // nil = default; otherwise the VALUE the name resolved to when it was set
		regGen := 0
		reRegister := func() {
			regGen++
			decoration.RegisterDecorationName("c10-deco", customFromMask(7|1<<(3+regGen%2)))
		}
		reRegister()
		resolve := func(name string) *decoration.Decoration { d := decoration.Named(name); return &d }
		capA := ""
		var ops []string
		renders := 0
		fresh := func() tabular.Table { f := tabular.New(); build(f, st); return f }
		textRef := func(dec *decoration.Decoration) (string, error) {
			w := texttable.Wrap(fresh())
			if dec != nil {
				w.SetDecoration(*dec)
			}
			return w.Render()
		}
		judge := func(what string, got string, gerr error, want string, werr error) bool {
			renders++
			x.Clause("C10.same_bytes")
			tags := []string{"sibling_wrappers", "entry:" + what}
			if renders > 1 {
				tags = append(tags, "after_other_renders_or_settings")
			}
			if got != want || (gerr != nil) != (werr != nil) {
				x.Fail("C10.same_bytes", tags, "%s after %v gives (err %v)\n%s\nbut a fresh identical table through a fresh wrapper with the same settings gives (err %v)\n%s", what, ops, gerr, got, werr, want)
				return false
			}
			return true
		}
		for step := 0; step < depth; step++ {
			k := c.Choose(22)
			if k == 0 {
				break
			}
			x.Transition(1)
			var name string
			ok := true
			p, val, site := Safe(func() {
				switch {
				case k >= 1 && k <= 3:
					decA = resolve(decNames[k-1])
					name = fmt.Sprintf("ttA.SetDecorationNamed(%s)", decNames[k-1])
					ttA.SetDecorationNamed(decNames[k-1])
				case k >= 4 && k <= 6:
					decB = resolve(decNames[k-4])
					name = fmt.Sprintf("ttB.SetDecorationNamed(%s)", decNames[k-4])
					ttB.SetDecorationNamed(decNames[k-4])
				case k == 19:
					name = "decoration.RegisterDecorationName(c10-deco, the other of two decorations)"
					reRegister()
				case k == 20:
					name = "auto.Render(t, c10-deco)"
					got, gerr := auto.Render(t, "c10-deco")
					want, werr := textRef(resolve("c10-deco"))
					ok = judge(name, got, gerr, want, werr)
				case k == 21:
					name = "auto.Render(t, texttable.c10-deco)"
					got, gerr := auto.Render(t, "texttable.c10-deco")
					want, werr := textRef(resolve("c10-deco"))
					ok = judge(name, got, gerr, want, werr)
				case k == 7:
					name = "ttA.Render()"
					got, gerr := ttA.Render()
					want, werr := textRef(decA)
					ok = judge(name, got, gerr, want, werr)
				case k == 8:
					name = "ttB.Render()"
					got, gerr := ttB.Render()
					want, werr := textRef(decB)
					ok = judge(name, got, gerr, want, werr)
				case k == 9:
					name = "texttable.Render(t)"
					got, gerr := texttable.Render(t)
					want, werr := textRef(nil)
					ok = judge(name, got, gerr, want, werr)
				case k == 10 || k == 11:
					style := []string{"texttable.utf8-light", "utf8-double"}[k-10]
					name = fmt.Sprintf("auto.Render(t, %q)", style)
					got, gerr := auto.Render(t, style)
					want, werr := textRef(resolve([]string{"utf8-light", "utf8-double"}[k-10]))
					ok = judge(name, got, gerr, want, werr)
				case k == 12:
					capA = fmt.Sprintf("cap%d", step)
					name = fmt.Sprintf("htA.Caption = %q", capA)
					htA.Caption = capA
				case k == 13 || k == 14:
					w, cap := htA, capA
					name = "htA.Render()"
					if k == 14 {
						w, cap, name = htB, "", "htB.Render()"
					}
					got, gerr := w.Render()
					ref := thtml.Wrap(fresh())
					ref.Caption = cap
					want, werr := ref.Render()
					ok = judge(name, got, gerr, want, werr)
				case k == 15:
					name = "md.Render()"
					got, gerr := md.Render()
					want, werr := markdown.Wrap(fresh()).Render()
					ok = judge(name, got, gerr, want, werr)
				case k == 16:
					if st.rows < 2 {
						name = "t.AddRowItems(n, two-line)"
						t.AddRowItems(fmt.Sprintf("n%d", st.rows), "x\ny")
						st.rows++
					} else {
						name = "(table already grown twice)"
					}
				case k == 17:
					name = "t.Column(2) right-aligned"
					t.Column(2).SetProperty(align.PropertyType, align.Right)
					st.aligned = true
				case k == 18:
					name = "t.Column(2) alignment unset"
					t.Column(2).SetProperty(align.PropertyType, nil)
					st.aligned = false
				}
			})
			c.Logf("%s", name)
			ops = append(ops, name)
			if p {
				x.FailSite("C10.no_panic", []string{"sibling_wrappers", "panic"}, site, "%s panicked: %v after %v", name, val, ops)
				return
			}
			if !ok {
				return
			}
		}
		x.State(fmt.Sprint(ops))
		if renders > 1 {
			x.Nontrivial(fmt.Sprint(ops))
		}
	})
}
