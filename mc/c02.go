package main

import (
	"fmt"
	"time"

	"go.pennock.tech/tabular"
)

// C02 — counts, order and addressing follow the build history.

func init() {
	register(&Check{
		ID:        "C02",
		Level:     "model_checking",
		Technique: "bounded exhaustive exploration of all table-building operation sequences on the real table, compared step by step with a reference model",
		Rule: "all sequences of AddHeaders(n)/AddRowItems(n) (n in 0,1,2,3,11), AddSeparator, AppendNewRow, NewRow, NewRowSizedFor, AddRow(detached row), Row.Add on detached AND attached rows, Add on a separator row, and mutation of the AllRows() copy, " +
			"to depth 5-6 (quick) / 6-7 (thorough), plus the same alphabet to depth 3 (4) after 49 rows/separators have been built (crossing the 50-row pre-allocation); the oracle runs after every step; a sequence is non-trivial when its final table has a separator, a zero-cell or ragged row, a post-attach cell, a replaced header or >=10 columns; distinct by reference-model state",
		Assumptions: []string{
			"each row is attached at most once and never to two tables (outside the documented model)",
			"when a second AddHeaders installs a narrower header the column count may be the maximum over current content or over everything ever added (statement silent on shrinking)",
			"Location() of header cells and of cells in never-attached rows is not asserted",
		},
		QuickBudget:    120 * time.Second,
		ThoroughBudget: 20 * time.Minute,
		Run:            runC02,
	})
}

func runC02(x *X) {
	runC02Reentrant(x)
	runC02SecondTable(x)
	runC02CellByCell(x)
	type fam struct {
		name   string
		depth  int
		counts []int
		items  ItemGen
	}
	// equal-texts: every cell of the table (headers included) shows the same text - "dup", or nothing at all
	equalItems := func(text string) ItemGen {
		return func(c *Chooser, b *Builder, op string, n int) ([]interface{}, []string, string) {
			items, texts := make([]interface{}, n), make([]string, n)
			for i := range items {
				items[i], texts[i] = text, text
			}
			return items, texts, fmt.Sprintf("%d x %q", n, text)
		}
	}
	// cell-valued items: what is handed to AddRowItems/AddHeaders/NewCell is itself a tabular.Cell value
	cellSerial := 0
	cellItems := func(c *Chooser, b *Builder, op string, n int) ([]interface{}, []string, string) {
		items, texts := make([]interface{}, n), make([]string, n)
		for i := range items {
			cellSerial++
			texts[i] = fmt.Sprintf("v%d", cellSerial)
			items[i] = tabular.NewCell(texts[i])
		}
		return items, texts, fmt.Sprintf("%d Cell values", n)
	}
	fams := []fam{{"build-seq", x.Pick(5, 6), []int{0, 1, 2, 3, 11}, nil},
		{"build-seq-equal-texts", x.Pick(4, 5), []int{0, 1, 2, 3}, equalItems("dup")},
		{"build-seq-blank-texts", x.Pick(4, 5), []int{0, 1, 2, 3}, equalItems("")},
		{"build-seq-cell-valued-items", x.Pick(4, 5), []int{0, 1, 2, 3}, cellItems}}
	if x.Thorough() {
		fams = append(fams, fam{"build-seq-narrow", 7, []int{0, 1, 2}, nil})
	} else {
		fams = append(fams, fam{"build-seq-narrow", 6, []int{0, 1, 2}, nil})
	}
	// crossing the 50-row mark (the core pre-allocates 50 row slots): 49 rows/separators first, then everything again
	tallCfg := &BuildCfg{Counts: []int{0, 1, 2}, MaxDetached: 1, AllowSepAdd: true, AllowMutateCopy: true, AllowNewRowSized: true}
	tallDepth := x.Pick(3, 4)
	x.Explore("tall", ExploreOpts{ShardDepth: 2, Bound: fmt.Sprintf("49 rows and separators built first, then all sequences of depth<=%d over the narrow alphabet", tallDepth)}, func(c *Chooser) {
		b := NewBuilder(tallCfg)
		for i := 0; i < 49; i++ {
			if i%6 == 5 {
				b.applyNamed(c, "AddSeparator", 0)
			} else {
				b.applyNamed(c, "AddRowItems/2", 0)
			}
		}
		c.Logf("-- 49 rows/separators built")
		for step := 0; step < tallDepth; step++ {
			op := b.Step(c, true)
			if op == "" {
				break
			}
			x.Transition(1)
			c02Oracle(x, b, op)
		}
		x.State("tall:" + b.Key()[len(b.Key())-20:])
		x.Nontrivial(b.Key())
	})
	// crossing the 10-cell mark of NewRow() (pre-allocated capacity 10) on a detached and on an attached row
	x.Explore("long-row", ExploreOpts{ShardDepth: 2, Bound: "a NewRow() given 9..11 cells before or after being attached, then all sequences of depth<=3 over the narrow alphabet"}, func(c *Chooser) {
		b := NewBuilder(tallCfg)
		n := 9 + c.Choose(3)
		attachFirst := c.Bool()
		b.applyNamed(c, "NewRow", 0)
		if attachFirst {
			b.applyNamed(c, "AddRow(detached)", 0)
			for i := 0; i < n; i++ {
				b.applyNamed(c, "attached.Add", 0)
				c02Oracle(x, b, "attached.Add")
			}
		} else {
			for i := 0; i < n; i++ {
				b.applyNamed(c, "detached.Add", 0)
			}
			b.applyNamed(c, "AddRow(detached)", 0)
		}
		c02Oracle(x, b, "long row built")
		for step := 0; step < 3; step++ {
			op := b.Step(c, true)
			if op == "" {
				break
			}
			x.Transition(1)
			c02Oracle(x, b, op)
		}
		x.State("longrow:" + b.Key())
		x.Nontrivial(b.Key())
	})
	for _, f := range fams {
		f := f
		cfg := &BuildCfg{Counts: f.counts, MaxDetached: 2, AllowSepAdd: true, AllowMutateCopy: true, AllowNewRowSized: true, Items: f.items}
		x.Explore(f.name, ExploreOpts{ShardDepth: 2, Bound: fmt.Sprintf("depth<=%d counts=%v", f.depth, f.counts)}, func(c *Chooser) {
			b := NewBuilder(cfg)
			c02Oracle(x, b, "new")
			for step := 0; step < f.depth; step++ {
				op := b.Step(c, true)
				if op == "" {
					break
				}
				x.Transition(1)
				c02Oracle(x, b, op)
			}
			x.State(b.Key())
			tags := b.Tags()
			for _, t := range tags {
				switch t {
				case "has_separator", "row_with_zero_cells", "ragged_rows", "cell_added_after_attach", "header_replaced", "ten_or_more_columns":
					x.Nontrivial(b.Key())
				}
			}
		})
	}
}

func c02Oracle(x *X, b *Builder, op string) {
	t := b.T
	tags := append(b.Tags(), "after:"+op)
	// counts
	x.Clause("C02.nrows")
	if t.NRows() != len(b.Rows) {
		x.Fail("C02.nrows", tags, "NRows()=%d, %d rows/separators were added", t.NRows(), len(b.Rows))
	}
	x.Clause("C02.ncolumns")
	want := b.NCols()
	got := t.NColumns()
	if got != want && !(b.HeaderReplaced && got == b.MaxEver) {
		x.Fail("C02.ncolumns", tags, "NColumns()=%d, largest cell count in header or any row is %d (state %s)", got, want, b.Key())
	}
	// row list
	x.Clause("C02.row_order")
	rows := t.AllRows()
	if len(rows) != len(b.Rows) {
		x.Fail("C02.row_order", tags, "AllRows() has %d entries, want %d", len(rows), len(b.Rows))
	}
	for i, r := range rows {
		m := b.Rows[i]
		if r == nil {
			x.Fail("C02.row_order", tags, "AllRows()[%d] is nil", i)
		}
		if m.Ptr != nil && r != m.Ptr {
			x.Fail("C02.row_order", tags, "AllRows()[%d] is not the row added %d-th", i, i+1)
		}
		if r.IsSeparator() != m.Sep {
			x.Fail("C02.row_order", tags, "AllRows()[%d].IsSeparator()=%v, want %v", i, r.IsSeparator(), m.Sep)
		}
		cells := r.Cells()
		if len(cells) != len(m.Cells) {
			x.Fail("C02.row_order", tags, "AllRows()[%d] has %d cells, want %d", i, len(cells), len(m.Cells))
		}
		for j := range cells {
			if cells[j].String() != m.Cells[j] {
				x.Fail("C02.row_order", tags, "AllRows()[%d].Cells()[%d]=%q, want %q", i, j, cells[j].String(), m.Cells[j])
			}
		}
		x.Clause("C02.row_location")
		if loc := r.Location(); loc.Row != i+1 || loc.Column != 0 {
			x.Fail("C02.row_location", tags, "row %d reports Location()=%+v, want {Row:%d Column:0}", i+1, loc, i+1)
		}
	}
	// headers
	x.Clause("C02.headers")
	h := t.Headers()
	if !b.HasHeader {
		if h != nil {
			x.Fail("C02.headers", tags, "Headers() is non-nil (%d cells) though no header was added", len(h))
		}
	} else {
		if len(h) != len(b.Header) {
			x.Fail("C02.headers", tags, "Headers() has %d cells, want %d", len(h), len(b.Header))
		}
		for j := range h {
			if h[j].String() != b.Header[j] {
				x.Fail("C02.headers", tags, "Headers()[%d]=%q, want %q", j, h[j].String(), b.Header[j])
			}
		}
	}
	// addressing
	x.Clause("C02.cellat")
	maxc := b.MaxEver
	if got > maxc {
		maxc = got
	}
	for r := -1; r <= len(b.Rows)+1; r++ {
		for cn := -1; cn <= maxc+2; cn++ {
			loc := tabular.CellLocation{Row: r, Column: cn}
			cell, err := t.CellAt(loc)
			valid := r >= 1 && r <= len(b.Rows) && !b.Rows[r-1].Sep && cn >= 1 && cn <= len(b.Rows[r-1].Cells)
			if valid {
				if err != nil || cell == nil {
					x.Fail("C02.cellat", tags, "CellAt(%+v) = (%v, %v), want the cell %q", loc, cell, err, b.Rows[r-1].Cells[cn-1])
				}
				if cell.String() != b.Rows[r-1].Cells[cn-1] {
					x.Fail("C02.cellat", tags, "CellAt(%+v) is cell %q, want %q", loc, cell.String(), b.Rows[r-1].Cells[cn-1])
				}
				if cl := cell.Location(); cl != loc {
					x.Fail("C02.cellat", tags, "cell at %+v reports Location()=%+v", loc, cl)
				}
			} else {
				if err == nil {
					x.Fail("C02.cellat", tags, "CellAt(%+v) returned no error (cell %v) but there is no such cell", loc, cell)
				}
				nsc, ok := err.(tabular.NoSuchCellError)
				if !ok {
					x.Fail("C02.cellat", tags, "CellAt(%+v) error is %T, want NoSuchCellError", loc, err)
				}
				if nsc.Location != loc {
					x.Fail("C02.cellat", tags, "CellAt(%+v) error carries location %+v", loc, nsc.Location)
				}
				if cell != nil {
					x.Fail("C02.cellat", tags, "CellAt(%+v) returned both an error and a cell", loc)
				}
			}
		}
	}
	// column handles
	x.Clause("C02.columns")
	for n := -2; n <= got+2; n++ {
		has := t.Column(n) != nil
		if has != (n >= 0 && n <= got) {
			x.Fail("C02.columns", tags, "Column(%d)!=nil is %v with NColumns()=%d", n, has, got)
		}
	}
	if want != got {
		return
	}
	// (when the count matches the model, also check against the model's count)
	for n := want + 1; n <= want+2; n++ {
		if t.Column(n) != nil {
			x.Fail("C02.columns", tags, "Column(%d) exists but the table has %d columns", n, want)
		}
	}
}
