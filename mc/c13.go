package main

import (
	"fmt"
	"sort"
	"strings"
	"time"

	"go.pennock.tech/tabular"
)

// C13 — callbacks fire once per target, on the live object, in the documented order.

func init() {
	register(&Check{
		ID:        "C13",
		Level:     "model_checking",
		Technique: "bounded exhaustive exploration of (table shape x registration(s) x registration point x render passes) on the real table with recording callbacks; the log of every atomic build step and render pass is compared with a reference event generator transcribed from the statement",
		Rule: "families cell-copies (callbacks on a cell VALUE before it is stored twice, then on either live copy) and live-cell-recolumned (an attached cell copied by value into another column of the same or another table, column callbacks must follow the new column); shapes: header none/1/2 cells x <=2 rows each a separator or a row of 0..2 cells built detached (NewRow, Add..., AddRow); registrations: every (owner kind in table, column 0/1/2, first row, second row, first cell, header cell) x 4 times x 3 targets = 96 combinations, registered at every atomic step position (before any row, between Add calls, after attach, after everything), singly on all shapes and in ordered pairs (registered at the start or after all steps) on 12 shapes (thorough: all 63 shapes); then 1-2 render passes; " +
			"clauses: refused (unsupported owner/target), once (required events exactly once, others at most once, nothing on a wrong target), order (nesting order within a pass), live (the object handed over is the one reachable through the table; properties it sets are readable afterwards); " +
			"non-trivial = execution in which at least one callback fired; distinct by (shape, registrations, points)",
		Assumptions: []string{
			"required events are those the statement names; for accepted registrations it does not name (e.g. table/RENDER/ITSELF, row ITSELF at add time, table- and column-level add callbacks for header rows, separators and cells added after attach, CELL callbacks on column 0, column callbacks on header cells) only 'at most once per target per step' and 'never on a wrong target' are asserted",
			"where the header row falls among the rows of a pass, the order among columns, and the order between registrations on the same slot are not asserted",
		},
		QuickBudget: 150 * time.Second, ThoroughBudget: 25 * time.Minute,
		Run: runC13,
	})
}

type c13Reg struct {
	id     int
	owner  string // table | col:N | row:R | cell:R:C | cell:H:C
	when   int    // 0 ADD 1 PRE 2 RENDER 3 POST
	target int    // 0 ITSELF 1 CELL 2 ROW
	atStep int
	ok     bool
}

func (r *c13Reg) String() string {
	return fmt.Sprintf("#%d %s/%s/%s@%d", r.id, r.owner, cbTimeNames[r.when], cbTargetNames[r.target], r.atStep)
}

type c13Event struct {
	reg    int
	target string
}

type c13Row struct {
	sep   bool
	n     int
	ptr   *tabular.Row
	added int // cells added so far
	att   bool
}

type c13World struct {
	x      *X
	c      *Chooser
	t      *tabular.ATable
	hdr    int // -1 none
	hdrSet bool
	rows   []*c13Row
	regs   []*c13Reg
	log    []c13Event
	bad    string // first liveness problem seen inside a callback
	stepNo int
}

type c13Rec struct {
	w   *c13World
	reg *c13Reg
}

func (cb *c13Rec) UpdateProperties(po tabular.PropertyOwner) error {
	w := cb.w
	tgt := w.identify(po)
	w.log = append(w.log, c13Event{cb.reg.id, tgt})
	if strings.HasSuffix(tgt, "?") && w.bad == "" {
		w.bad = fmt.Sprintf("callback %s was handed a %T that is not reachable through the table (%s)", cb.reg, po, tgt)
	}
	po.SetProperty(fmt.Sprintf("seen-%d", cb.reg.id), w.stepNo)
	return nil
}

func (w *c13World) identify(po tabular.PropertyOwner) string {
	switch v := po.(type) {
	case *tabular.ATable:
		if v == w.t {
			return "table"
		}
		return "table?"
	case *tabular.Row:
		for i, r := range w.rows {
			if r.ptr == v {
				return fmt.Sprintf("row:%d", i)
			}
		}
		if w.hdrSet {
			return "row:H"
		}
		return "row?"
	case *tabular.Cell:
		for i, r := range w.rows {
			if r.ptr == nil || r.sep {
				continue
			}
			cs := r.ptr.Cells()
			for j := range cs {
				if &cs[j] == v {
					return fmt.Sprintf("cell:%d:%d", i, j)
				}
			}
		}
		if h := w.t.Headers(); h != nil {
			for j := range h {
				if &h[j] == v {
					return fmt.Sprintf("cell:H:%d", j)
				}
			}
		}
		// during AddHeaders the header row is not yet installed: accept cells that report row 0 and no table row
		if !w.hdrSet {
			return fmt.Sprintf("cell:H:%d", v.Location().Column-1)
		}
		return "cell?"
	default:
		for n := 0; n <= w.t.NColumns(); n++ {
			if cp := w.t.Column(n); cp != nil && tabular.PropertyOwner(cp) == po {
				return fmt.Sprintf("col:%d", n)
			}
		}
		return "col?"
	}
}

// ownerPO resolves an owner reference to the live object, or nil if it does not exist (yet).
func (w *c13World) ownerPO(owner string) tabular.PropertyOwner {
	var a, b int
	switch {
	case owner == "table":
		return w.t
	case strings.HasPrefix(owner, "col:"):
		fmt.Sscanf(owner, "col:%d", &a)
		if cp := w.t.Column(a); cp != nil {
			return cp
		}
		return nil
	case strings.HasPrefix(owner, "row:"):
		fmt.Sscanf(owner, "row:%d", &a)
		if a < len(w.rows) && w.rows[a].ptr != nil {
			return w.rows[a].ptr
		}
		return nil
	case strings.HasPrefix(owner, "cell:H:"):
		fmt.Sscanf(owner, "cell:H:%d", &b)
		if h := w.t.Headers(); b < len(h) {
			return &h[b]
		}
		return nil
	case strings.HasPrefix(owner, "cell:"):
		fmt.Sscanf(owner, "cell:%d:%d", &a, &b)
		if a < len(w.rows) && w.rows[a].ptr != nil && !w.rows[a].sep {
			if cs := w.rows[a].ptr.Cells(); b < len(cs) {
				return &cs[b]
			}
		}
		return nil
	}
	return nil
}

func c13Supported(owner string, target int) bool {
	switch {
	case owner == "table":
		return true
	case strings.HasPrefix(owner, "col:"):
		return target != 2
	case strings.HasPrefix(owner, "row:"):
		return true
	default: // cell
		return target != 2
	}
}

// expectation for one atomic step: required events (exactly once) and allowed-but-optional ones (at most once).
type c13Expect struct {
	req map[c13Event]bool
	opt map[c13Event]bool
}

func newExpect() *c13Expect { return &c13Expect{map[c13Event]bool{}, map[c13Event]bool{}} }

func colOf(owner string) int {
	n := -1
	fmt.Sscanf(owner, "col:%d", &n)
	return n
}

// expectAdd: cell j added to row ri by Row.Add (attached tells whether the row is already in the table).
func (w *c13World) expectRowAdd(e *c13Expect, ri, j int, attached bool) {
	cell := fmt.Sprintf("cell:%d:%d", ri, j)
	for _, r := range w.regs {
		if !r.ok || r.when != 0 {
			continue
		}
		switch {
		case r.owner == fmt.Sprintf("row:%d", ri) && r.target == 1:
			e.req[c13Event{r.id, cell}] = true
		case attached && r.owner == "table" && r.target == 1:
			e.opt[c13Event{r.id, cell}] = true
		case attached && strings.HasPrefix(r.owner, "col:") && r.target == 1 && (colOf(r.owner) == j+1 || colOf(r.owner) == 0):
			e.opt[c13Event{r.id, cell}] = true
		}
	}
}

func (w *c13World) expectAddRow(e *c13Expect, ri int) {
	row := fmt.Sprintf("row:%d", ri)
	n := w.rows[ri].added
	for _, r := range w.regs {
		if !r.ok || r.when != 0 {
			continue
		}
		switch {
		case r.owner == "table" && r.target == 2:
			e.req[c13Event{r.id, row}] = true
		case r.owner == row && (r.target == 0 || r.target == 2):
			e.opt[c13Event{r.id, row}] = true
		case r.owner == "table" && r.target == 1:
			for j := 0; j < n; j++ {
				e.req[c13Event{r.id, fmt.Sprintf("cell:%d:%d", ri, j)}] = true
			}
		case strings.HasPrefix(r.owner, "col:") && r.target == 1:
			k := colOf(r.owner)
			if k == 0 {
				for j := 0; j < n; j++ {
					e.opt[c13Event{r.id, fmt.Sprintf("cell:%d:%d", ri, j)}] = true
				}
			} else if k-1 < n {
				e.req[c13Event{r.id, fmt.Sprintf("cell:%d:%d", ri, k-1)}] = true
			}
		}
	}
}

func (w *c13World) expectAddHeaders(e *c13Expect, n int) {
	for _, r := range w.regs {
		if !r.ok || r.when != 0 {
			continue
		}
		switch {
		case r.owner == "table" && r.target == 2:
			e.opt[c13Event{r.id, "row:H"}] = true
		case r.owner == "table" && r.target == 1:
			for j := 0; j < n; j++ {
				e.opt[c13Event{r.id, fmt.Sprintf("cell:H:%d", j)}] = true
			}
		case strings.HasPrefix(r.owner, "col:") && r.target == 1:
			k := colOf(r.owner)
			for j := 0; j < n; j++ {
				if k == 0 || k == j+1 {
					e.opt[c13Event{r.id, fmt.Sprintf("cell:H:%d", j)}] = true
				}
			}
		}
	}
}

func (w *c13World) expectSeparator(e *c13Expect, ri int) {
	for _, r := range w.regs {
		if r.ok && r.when == 0 && r.owner == "table" && r.target == 2 {
			e.opt[c13Event{r.id, fmt.Sprintf("row:%d", ri)}] = true
		}
	}
}

// expectRender: one render pass over the current table.
func (w *c13World) expectRender(e *c13Expect) {
	ncols := w.t.NColumns()
	type rowDesc struct {
		name  string
		cells int
	}
	var rows []rowDesc
	if w.hdrSet {
		rows = append(rows, rowDesc{"H", w.hdr})
	}
	for i, r := range w.rows {
		if r.att {
			rows = append(rows, rowDesc{fmt.Sprint(i), r.added})
		}
	}
	for _, r := range w.regs {
		if !r.ok || r.when == 0 {
			continue
		}
		prepost := r.when == 1 || r.when == 3
		switch {
		case r.owner == "table" && r.target == 0:
			if prepost {
				e.req[c13Event{r.id, "table"}] = true
			} else {
				e.opt[c13Event{r.id, "table"}] = true
			}
		case r.owner == "table" && r.target == 1:
			for _, rd := range rows {
				for j := 0; j < rd.cells; j++ {
					e.req[c13Event{r.id, fmt.Sprintf("cell:%s:%d", rd.name, j)}] = true
				}
			}
		case r.owner == "table" && r.target == 2:
			for _, rd := range rows {
				e.opt[c13Event{r.id, "row:" + rd.name}] = true
			}
		case strings.HasPrefix(r.owner, "col:") && r.target == 0:
			k := colOf(r.owner)
			if k <= ncols {
				if prepost {
					e.req[c13Event{r.id, r.owner}] = true
				} else {
					e.opt[c13Event{r.id, r.owner}] = true
				}
			}
		case strings.HasPrefix(r.owner, "col:") && r.target == 1:
			k := colOf(r.owner)
			for _, rd := range rows {
				for j := 0; j < rd.cells; j++ {
					ev := c13Event{r.id, fmt.Sprintf("cell:%s:%d", rd.name, j)}
					switch {
					case k == 0:
						e.opt[ev] = true
					case k == j+1 && rd.name == "H":
						e.opt[ev] = true
					case k == j+1 && prepost:
						e.req[ev] = true
					case k == j+1:
						e.opt[ev] = true
					}
				}
			}
		case strings.HasPrefix(r.owner, "row:"):
			var ri int
			fmt.Sscanf(r.owner, "row:%d", &ri)
			if ri >= len(w.rows) || !w.rows[ri].att {
				continue
			}
			if r.target == 0 || r.target == 2 {
				if prepost {
					e.req[c13Event{r.id, r.owner}] = true
				} else {
					e.opt[c13Event{r.id, r.owner}] = true
				}
			} else {
				for j := 0; j < w.rows[ri].added; j++ {
					ev := c13Event{r.id, fmt.Sprintf("cell:%d:%d", ri, j)}
					if prepost {
						e.req[ev] = true
					} else {
						e.opt[ev] = true
					}
				}
			}
		case strings.HasPrefix(r.owner, "cell:"):
			// the cell must be in the table
			if po := w.ownerPO(r.owner); po == nil {
				continue
			}
			if !strings.HasPrefix(r.owner, "cell:H:") {
				var ri, cj int
				fmt.Sscanf(r.owner, "cell:%d:%d", &ri, &cj)
				if !w.rows[ri].att {
					continue
				}
			}
			if r.when == 2 {
				e.req[c13Event{r.id, r.owner}] = true
			} else {
				e.opt[c13Event{r.id, r.owner}] = true
			}
		}
	}
}

// rank gives the position of an event in the documented nesting order of a pass.
func (w *c13World) rank(ev c13Event) (phase int, row string, cell int, step int) {
	r := w.regs[ev.reg]
	switch {
	case r.owner == "table" && r.target == 0:
		if r.when == 1 {
			return 0, "", 0, 0
		}
		if r.when == 3 {
			return 4, "", 0, 0
		}
		return -1, "", 0, 0
	case strings.HasPrefix(r.owner, "col:") && r.target == 0:
		if r.when == 1 {
			return 1, "", 0, 0
		}
		if r.when == 3 {
			return 3, "", 0, 0
		}
		return -1, "", 0, 0
	}
	if strings.HasPrefix(ev.target, "row:") {
		if r.when == 1 {
			return 2, ev.target[4:], -1, 0
		}
		if r.when == 3 {
			return 2, ev.target[4:], 1 << 20, 0
		}
		return -1, "", 0, 0
	}
	if strings.HasPrefix(ev.target, "cell:") {
		parts := strings.Split(ev.target, ":")
		cj := 0
		fmt.Sscanf(parts[2], "%d", &cj)
		st := -1
		switch {
		case r.owner == "table" && r.when == 1:
			st = 0
		case strings.HasPrefix(r.owner, "col:") && r.when == 1:
			st = 1
		case strings.HasPrefix(r.owner, "row:") && r.when == 1:
			st = 2
		case r.owner == "table" && r.when == 2:
			st = 3
		case strings.HasPrefix(r.owner, "cell:") && r.when == 2:
			st = 4
		case strings.HasPrefix(r.owner, "row:") && r.when == 3:
			st = 5
		case strings.HasPrefix(r.owner, "col:") && r.when == 3:
			st = 6
		case r.owner == "table" && r.when == 3:
			st = 7
		}
		if st < 0 {
			return -1, "", 0, 0
		}
		return 2, parts[1], cj, st
	}
	return -1, "", 0, 0
}

// settle compares the log of the step just executed with its expectation.
func (w *c13World) settle(e *c13Expect, what string, render bool) bool {
	x := w.x
	tags := w.tags()
	defer func() { w.log = nil }()
	x.Clause("C13.live")
	if w.bad != "" {
		x.Fail("C13.live", tags, "%s: %s; registrations %v", what, w.bad, w.regs)
		return false
	}
	x.Clause("C13.once")
	count := map[c13Event]int{}
	for _, ev := range w.log {
		count[ev]++
	}
	for ev, n := range count {
		if !e.req[ev] && !e.opt[ev] {
			x.Fail("C13.once", append(tags, "unexpected_invocation"), "%s: callback %s was invoked on %s, which is not a matching target; log %v", what, w.regs[ev.reg], ev.target, w.describe(w.log))
			return false
		}
		if n > 1 {
			x.Fail("C13.once", append(tags, "duplicate_invocation"), "%s: callback %s was invoked %d times on %s; log %v", what, w.regs[ev.reg], n, ev.target, w.describe(w.log))
			return false
		}
	}
	var missing []string
	for ev := range e.req {
		if count[ev] == 0 {
			missing = append(missing, fmt.Sprintf("%s on %s", w.regs[ev.reg], ev.target))
		}
	}
	if len(missing) > 0 {
		sort.Strings(missing)
		tg := append(tags, "missing_invocation")
		for ev := range e.req {
			if count[ev] == 0 {
				r := w.regs[ev.reg]
				if r.owner == "table" && r.when == 3 && r.target == 1 {
					tg = append(tg, "table_cell_postcell_registration")
				}
			}
		}
		x.Fail("C13.once", tg, "%s: never invoked: %v; log %v", what, missing, w.describe(w.log))
		return false
	}
	// live: the property each callback set is readable through the table
	for _, ev := range w.log {
		po := w.ownerPO(ev.target)
		if ev.target == "row:H" {
			continue // no public handle to the header row
		}
		if po == nil || po.GetProperty(fmt.Sprintf("seen-%d", ev.reg)) == nil {
			tg := tags
			if strings.HasPrefix(ev.target, "col:") {
				tg = append(tg, "column_itself_callback")
			}
			x.Fail("C13.live", tg, "%s: callback %s set a property on its target %s, but it is not visible through the table afterwards", what, w.regs[ev.reg], ev.target)
			return false
		}
	}
	if render {
		x.Clause("C13.order")
		lastPhase := 0
		type pos struct {
			row        string
			cell, step int
		}
		var lastBody, lastHdr *pos
		for _, ev := range w.log {
			ph, row, cell, st := w.rank(ev)
			if ph < 0 {
				continue
			}
			if ph < lastPhase {
				x.Fail("C13.order", tags, "%s: %s on %s runs after a later phase of the pass (table, columns, rows, columns, table); log %v", what, w.regs[ev.reg], ev.target, w.describe(w.log))
				return false
			}
			lastPhase = ph
			if ph != 2 {
				continue
			}
			p := &pos{row, cell, st}
			last := &lastBody
			if row == "H" {
				last = &lastHdr
			}
			if *last != nil {
				l := *last
				less := false
				if row != "H" && l.row != p.row {
					var a, b int
					fmt.Sscanf(l.row, "%d", &a)
					fmt.Sscanf(p.row, "%d", &b)
					less = b < a
				} else if p.cell != l.cell {
					less = p.cell < l.cell
				} else {
					less = p.step < l.step
				}
				if less {
					x.Fail("C13.order", tags, "%s: %s on %s is out of the documented nesting order (row pre; per cell: table pre, column pre, row pre, table render, cell render, row post, column post, table post; row post); log %v", what, w.regs[ev.reg], ev.target, w.describe(w.log))
					return false
				}
			}
			*last = p
		}
	}
	return true
}

func (w *c13World) describe(log []c13Event) []string {
	var out []string
	for _, ev := range log {
		out = append(out, fmt.Sprintf("%s->%s", w.regs[ev.reg], ev.target))
	}
	return out
}

func (w *c13World) tags() []string {
	var t []string
	for _, r := range w.regs {
		kind := r.owner
		if i := strings.Index(kind, ":"); i > 0 {
			kind = kind[:i]
		}
		t = appendUnique(t, fmt.Sprintf("reg:%s/%s/%s", kind, cbTimeNames[r.when], cbTargetNames[r.target]))
	}
	if w.hdr >= 0 {
		t = append(t, "has_header")
	}
	for _, r := range w.rows {
		if r.sep {
			t = appendUnique(t, "has_separator")
		}
	}
	return t
}

type c13Shape struct {
	hdr  int   // -1 none
	rows []int // -1 separator, else cell count
}

func (s c13Shape) String() string { return fmt.Sprintf("header=%d rows=%v", s.hdr, s.rows) }

func c13Shapes() []c13Shape {
	var out []c13Shape
	for _, h := range []int{-1, 1, 2} {
		opts := []int{-1, 0, 1, 2}
		out = append(out, c13Shape{h, nil})
		for _, a := range opts {
			out = append(out, c13Shape{h, []int{a}})
			for _, b := range opts {
				out = append(out, c13Shape{h, []int{a, b}})
			}
		}
	}
	return out
}

var c13Owners = []string{"table", "col:0", "col:1", "col:2", "row:0", "row:1", "cell:0:0", "cell:H:0"}

// c13Run executes one scenario.  regSpecs: (owner idx, when, target, step position).
func c13Run(x *X, c *Chooser, shape c13Shape, nregs int, passes int, endsOnly bool) {
	c13RunMode(x, c, shape, nregs, passes, endsOnly, "")
}

// mode "refusal": three registrations made at the same point - any supported one, then an UNSUPPORTED one (it must be
// refused), then a supported one on the refused registration's owner.
func c13RunMode(x *X, c *Chooser, shape c13Shape, nregs int, passes int, endsOnly bool, mode string) {
	w := &c13World{x: x, c: c, t: tabular.New(), hdr: shape.hdr}
	// atomic steps
	type step struct {
		kind string
		row  int
	}
	var steps []step
	if shape.hdr >= 0 {
		steps = append(steps, step{"AddHeaders", 0})
	}
	for i, n := range shape.rows {
		w.rows = append(w.rows, &c13Row{sep: n < 0, n: n})
		if n < 0 {
			steps = append(steps, step{"AddSeparator", i})
			continue
		}
		steps = append(steps, step{"NewRow", i})
		for j := 0; j < n; j++ {
			steps = append(steps, step{"Add", i})
		}
		steps = append(steps, step{"AddRow", i})
	}
	// one extra: a cell added after attach to the last cell row (if any)
	for i := len(shape.rows) - 1; i >= 0; i-- {
		if shape.rows[i] >= 0 {
			steps = append(steps, step{"AddAfterAttach", i})
			break
		}
	}
	type spec struct{ owner, when, target, at int }
	specs := make([]spec, nregs)
	for i := range specs {
		if mode == "refusal" {
			continue
		}
		specs[i] = spec{owner: c.Choose(len(c13Owners)), when: c.Choose(4), target: c.Choose(3)}
		if endsOnly {
			specs[i].at = []int{0, len(steps)}[c.Choose(2)]
		} else if passes >= 2 {
			// one more registration point: between the first and the second render pass
			specs[i].at = c.Choose(len(steps) + 2)
		} else {
			specs[i].at = c.Choose(len(steps) + 1)
		}
	}
	if mode == "refusal" {
		at := []int{0, len(steps)}[c.Choose(2)]
		specs[0] = spec{owner: c.Choose(len(c13Owners)), when: c.Choose(4), target: c.Choose(3), at: at}
		specs[1] = spec{owner: c.Choose(len(c13Owners)), when: specs[0].when, target: 2, at: at}
		specs[2] = spec{owner: specs[1].owner, when: c.Choose(4), target: c.Choose(2), at: at}
		if !c13Supported(c13Owners[specs[0].owner], specs[0].target) || c13Supported(c13Owners[specs[1].owner], 2) {
			return
		}
	}
	// how detached rows are constructed (mode "ctor": every constructor; otherwise NewRow)
	ctor := 0
	if mode == "ctor" {
		ctor = 1 + c.Choose(3)
	}
	c.Logf("shape %s", shape)
	fired := false
	doRegs := func(pos int) bool {
		for _, s := range specs {
			if s.at != pos {
				continue
			}
			owner := c13Owners[s.owner]
			po := w.ownerPO(owner)
			reg := &c13Reg{id: len(w.regs), owner: owner, when: s.when, target: s.target, atStep: pos}
			if po == nil {
				c.Logf("(owner %s does not exist at step %d: nothing registered)", owner, pos)
				reg.ok = false
				w.regs = append(w.regs, reg)
				continue
			}
			var via tabular.Table = w.t
			viaName := "t"
			if mode == "ctor" && (strings.HasPrefix(owner, "row:") || (strings.HasPrefix(owner, "cell:") && !strings.HasPrefix(owner, "cell:H:"))) {
				// a row that is not attached yet belongs to no table: the registration may be made through any table
				var ri int
				fmt.Sscanf(strings.TrimPrefix(strings.TrimPrefix(owner, "row:"), "cell:"), "%d", &ri)
				if ri < len(w.rows) && !w.rows[ri].att && c.Bool() {
					via, viaName = tabular.New(), "anotherTable"
				}
			}
			err := registerCB(via, po, s.when, s.target, &c13Rec{w, reg})
			c.Logf("%s.RegisterPropertyCallback(%s, %s, %s, rec#%d) -> %v", viaName, owner, cbTimeNames[s.when], cbTargetNames[s.target], reg.id, err)
			x.Clause("C13.refused")
			if c13Supported(owner, s.target) {
				if err != nil {
					x.Fail("C13.refused", w.tags(), "registering %s is supported but was refused: %v", reg, err)
					return false
				}
				reg.ok = true
			} else {
				if err == nil {
					x.Fail("C13.refused", append(w.tags(), "unsupported_combination_accepted"), "registering the unsupported combination %s returned no error", reg)
					return false
				}
			}
			w.regs = append(w.regs, reg)
		}
		return true
	}
	for si := 0; si <= len(steps); si++ {
		if !doRegs(si) {
			return
		}
		if si == len(steps) {
			break
		}
		st := steps[si]
		w.stepNo = si + 1
		e := newExpect()
		x.Transition(1)
		switch st.kind {
		case "AddHeaders":
			items := make([]interface{}, shape.hdr)
			for j := range items {
				items[j] = fmt.Sprintf("h%d", j)
			}
			w.expectAddHeaders(e, shape.hdr)
			c.Logf("t.AddHeaders(%d cells)", shape.hdr)
			w.hdrSet = true
			w.t.AddHeaders(items...)
		case "AddSeparator":
			w.expectSeparator(e, st.row)
			c.Logf("t.AddSeparator()")
			w.t.AddSeparator()
			rr := w.t.AllRows()
			w.rows[st.row].ptr = rr[len(rr)-1]
			w.rows[st.row].att = true
		case "NewRow":
			switch ctor {
			case 1:
				c.Logf("r%d := tabular.NewRowWithCapacity(18)   // far more room than cells", st.row)
				w.rows[st.row].ptr = tabular.NewRowWithCapacity(18)
			case 2:
				c.Logf("r%d := tabular.NewRowWithCapacity(0)", st.row)
				w.rows[st.row].ptr = tabular.NewRowWithCapacity(0)
			case 3:
				c.Logf("r%d := t.NewRowSizedFor()", st.row)
				w.rows[st.row].ptr = w.t.NewRowSizedFor()
			default:
				c.Logf("r%d := tabular.NewRow()", st.row)
				w.rows[st.row].ptr = tabular.NewRow()
			}
		case "Add":
			r := w.rows[st.row]
			w.expectRowAdd(e, st.row, r.added, false)
			c.Logf("r%d.Add(cell)", st.row)
			r.ptr.Add(tabular.NewCell(fmt.Sprintf("c%d%d", st.row, r.added)))
			r.added++
		case "AddRow":
			w.expectAddRow(e, st.row)
			c.Logf("t.AddRow(r%d)", st.row)
			w.t.AddRow(w.rows[st.row].ptr)
			w.rows[st.row].att = true
		case "AddAfterAttach":
			r := w.rows[st.row]
			w.expectRowAdd(e, st.row, r.added, true)
			c.Logf("r%d.Add(cell)   // row already attached", st.row)
			r.ptr.Add(tabular.NewCell("late"))
			r.added++
		}
		if len(w.log) > 0 {
			fired = true
		}
		if !w.settle(e, fmt.Sprintf("step %d (%s)", si+1, st.kind), false) {
			return
		}
	}
	for p := 0; p < passes; p++ {
		w.stepNo = 100 + p
		e := newExpect()
		w.expectRender(e)
		c.Logf("t.InvokeRenderCallbacks()   // pass %d", p+1)
		x.Transition(1)
		w.t.InvokeRenderCallbacks()
		if len(w.log) > 0 {
			fired = true
		}
		if !w.settle(e, fmt.Sprintf("render pass %d", p+1), true) {
			return
		}
		if p == 0 && passes >= 2 {
			// registrations made after the table has already been rendered once
			if !doRegs(len(steps) + 1) {
				return
			}
		}
	}
	key := fmt.Sprint(shape, specs, passes)
	x.State(fmt.Sprint(shape))
	if fired {
		x.Nontrivial(key)
	}
}

func runC13(x *X) {
	shapes := c13Shapes()
	x.Explore("single", ExploreOpts{ShardDepth: 2, Bound: fmt.Sprintf("%d shapes x 96 registrations x every step position x 1-2 passes", len(shapes))}, func(c *Chooser) {
		shape := shapes[c.Choose(len(shapes))]
		passes := 1 + c.Choose(2)
		c13Run(x, c, shape, 1, passes, false)
	})
	// cells are values: callbacks registered on a Cell before it is copied into rows are inherited by
	// every copy; callbacks registered on one live copy afterwards belong to that copy alone.
	x.Explore("single-other-row-constructors", ExploreOpts{ShardDepth: 2, Bound: fmt.Sprintf("%d shapes with at least one cell row x rows made by NewRowWithCapacity(18) | NewRowWithCapacity(0) | t.NewRowSizedFor() x 96 registrations x every step position x 1 pass", len(shapes))}, func(c *Chooser) {
		shape := shapes[c.Choose(len(shapes))]
		hasRow := false
		for _, n := range shape.rows {
			if n >= 0 {
				hasRow = true
			}
		}
		if !hasRow {
			return
		}
		c13RunMode(x, c, shape, 1, 1, false, "ctor")
	})
	x.Explore("cell-copies", ExploreOpts{ShardDepth: 2, Bound: "0..3 callbacks on a template cell; the cell stored twice (two rows | same row); <=3 further registrations each on either live copy; 1-2 passes"}, func(c *Chooser) {
		c13CellCopies(x, c)
	})
	// a LIVE (attached) cell copied by value into another row at a different column index: column-level
	// cell callbacks must follow the column the copy now sits in
	x.Explore("live-cell-recolumned", ExploreOpts{ShardDepth: 2, Bound: "cell of column 1 copied by value into column 2 of a new row (same table | second table) x column callbacks {ADD, PRE, POST} registered before/after the copy x 1-2 passes"}, func(c *Chooser) {
		c13Recolumn(x, c)
	})
	// many callbacks in ONE list (lists are pre-sized for 10): distinct callback objects with identical state
	x.Explore("many-callbacks", ExploreOpts{ShardDepth: 2, Bound: "9..13 indistinguishable-by-value callback objects registered on one (owner, time, target) slot of 4 kinds; 3 render passes"}, func(c *Chooser) {
		n := 9 + c.Choose(5)
		slot := c.Choose(4)
		t := tabular.New()
		t.AddHeaders("h1", "h2")
		t.AddRowItems("a", "b")
		t.AddRowItems("c")
		var owner tabular.PropertyOwner
		when, target, per := 1, 1, 0
		switch slot {
		case 0:
			owner, when, target, per = t, 1, 1, 5 // table CELL PRECELL: 2 header + 3 body cells
		case 1:
			owner, when, target, per = t, 3, 0, 1 // table ITSELF POSTCELL
		case 2:
			owner, when, target, per = t.Column(1), 3, 1, 2 // column 1 CELL POSTCELL: body cells of column 1
		case 3:
			cell, _ := t.CellAt(tabular.CellLocation{Row: 1, Column: 2})
			owner, when, target, per = cell, 2, 0, 1 // cell ITSELF RENDER
		}
		cbs := make([]*c13Counter, n)
		for i := range cbs {
			cbs[i] = &c13Counter{}
			if err := registerCB(t, owner, when, target, cbs[i]); err != nil {
				x.Fail("C13.refused", []string{"many_callbacks"}, "registration %d of %d refused: %v", i+1, n, err)
			}
		}
		c.Logf("%d callback objects with identical state registered on slot %d; 3 render passes", n, slot)
		x.Transition(n)
		for pass := 1; pass <= 3; pass++ {
			t.InvokeRenderCallbacks()
			x.Transition(1)
			x.Clause("C13.once")
			for i, cb := range cbs {
				if cb.n != pass*per {
					x.Fail("C13.once", []string{"many_callbacks", fmt.Sprintf("callbacks_in_one_list:%d", n)}, "after pass %d callback %d of %d (slot %d) has fired %d times in total, want %d (%d per pass); counts %v", pass, i+1, n, slot, cb.n, pass*per, per, c13Counts(cbs))
					return
				}
			}
		}
		x.State(fmt.Sprint("many", n, slot))
		x.Nontrivial(fmt.Sprint(n, slot))
	})
	x.Explore("column-handle-across-growth", ExploreOpts{ShardDepth: 3, Bound: "tables of 1/2/5/9 columns x handle of column 1 | the last column x growth to w+1/10/11/17/33 columns by AddRowItems | AddHeaders | Add on the attached row x column {PRECELL, POSTCELL} x {ITSELF, CELL} registered through the old handle before | after the growth x 1-2 passes"}, func(c *Chooser) {
		c13ColumnGrowth(x, c)
	})
	x.Explore("row-callback-appends-cell", ExploreOpts{ShardDepth: 2, Bound: "rows of 1..3 cells x 4 constructors x appending ROW callback on the table | the row itself x recording add-time CELL callback on the table | column 1 x header or not"}, func(c *Chooser) {
		c13RowCallbackAppends(x, c)
	})
	x.Explore("owner-given-as-wrapper", ExploreOpts{ShardDepth: 2, Bound: "table owner given as {B, texttable.Wrap(B), csv.Wrap(texttable.Wrap(B)), markdown.Wrap(B)} x call made on {B, html.Wrap(B), unrelated A, texttable.Wrap(A)} x 3 render times x {ITSELF, CELL}; passes over A (must stay silent) and twice over B"}, func(c *Chooser) {
		c13OwnerAsWrapper(x, c)
	})
	x.Explore("header-row-callbacks", ExploreOpts{ShardDepth: 2, Bound: "header of 1..3 cells x 0..2 body rows x {PRECELL, POSTCELL} x {ITSELF, CELL, ROW} registered on the header row (captured through the add-time ROW callback) x 2 passes"}, func(c *Chooser) {
		c13HeaderRow(x, c)
	})
	x.Explore("pass-after-an-abandoned-pass", ExploreOpts{ShardDepth: 2, Bound: "2x2 table with/without header; 9 counting callbacks over table/column/row slots; an aborting callback on 6 slots abandons pass 1|2 by {panic recovered by the caller, runtime.Goexit}; the next 1-2 complete passes compared counter by counter with a twin table that was never interrupted"}, func(c *Chooser) {
		c13AbandonedPass(x, c)
	})
	refShapes := []c13Shape{{2, []int{2, 2}}, {1, []int{1}}, {-1, []int{2, 1}}, {2, []int{2, -1}}}
	x.Explore("refusal-then-valid", ExploreOpts{ShardDepth: 3, Bound: fmt.Sprintf("%d shapes x (any supported registration ; an unsupported one on a column or cell ; a supported one on that owner) all made at the start | after all steps x 1 pass", len(refShapes))}, func(c *Chooser) {
		shape := refShapes[c.Choose(len(refShapes))]
		c13RunMode(x, c, shape, 3, 1, true, "refusal")
	})
	pairShapes := []c13Shape{{1, []int{1}}, {2, []int{2, -1}}, {-1, []int{2, 1}}, {1, []int{0, 2}}, {2, []int{2, 2}}, {-1, []int{1}}, {1, []int{-1, 1}}, {2, nil}, {1, []int{2}}, {-1, []int{-1, 2}}, {2, []int{1, 0}}, {1, []int{1, 1}}}
	if x.Thorough() {
		pairShapes = shapes
	}
	x.Explore("pairs", ExploreOpts{ShardDepth: 3, Bound: fmt.Sprintf("%d shapes x all ordered pairs of 96 registrations x registration points {start, after all steps} x 1 pass", len(pairShapes))}, func(c *Chooser) {
		shape := pairShapes[c.Choose(len(pairShapes))]
		c13Run(x, c, shape, 2, 1, true)
	})
}

type c13CopyRec struct {
	name string
	log  *[]string
	w    map[*tabular.Cell]string
}

func (r *c13CopyRec) UpdateProperties(po tabular.PropertyOwner) error {
	cell, ok := po.(*tabular.Cell)
	who := "?"
	if ok {
		if n, known := r.w[cell]; known {
			who = n
		}
	}
	*r.log = append(*r.log, r.name+"@"+who)
	return nil
}

func c13CellCopies(x *X, c *Chooser) {
	t := tabular.New()
	var log []string
	who := map[*tabular.Cell]string{}
	k0 := c.Choose(4)
	sameRow := c.Bool()
	tmpl := tabular.NewCell("tmpl")
	expect := map[string]int{}
	for i := 0; i < k0; i++ {
		name := fmt.Sprintf("base%d", i)
		c.Logf("t.RegisterPropertyCallback(&tmpl, RENDER, ITSELF, %s)   // before the cell is stored anywhere", name)
		if err := registerCB(t, &tmpl, 2, 0, &c13CopyRec{name, &log, who}); err != nil {
			x.Fail("C13.refused", []string{"cell_copies"}, "registering on a cell value was refused: %v", err)
		}
		expect[name+"@A"] = 1
		expect[name+"@B"] = 1
	}
	var a, b *tabular.Cell
	if sameRow {
		c.Logf("r := NewRow().Add(tmpl).Add(tmpl); t.AddRow(r)")
		r := tabular.NewRow().Add(tmpl).Add(tmpl)
		t.AddRow(r)
		a, _ = t.CellAt(tabular.CellLocation{Row: 1, Column: 1})
		b, _ = t.CellAt(tabular.CellLocation{Row: 1, Column: 2})
	} else {
		c.Logf("t.AddRow(NewRow().Add(tmpl)); t.AddRow(NewRow().Add(tmpl))")
		t.AddRow(tabular.NewRow().Add(tmpl))
		t.AddRow(tabular.NewRow().Add(tmpl))
		a, _ = t.CellAt(tabular.CellLocation{Row: 1, Column: 1})
		b, _ = t.CellAt(tabular.CellLocation{Row: 2, Column: 1})
	}
	if a == nil || b == nil {
		panic("harness: copies not found")
	}
	who[a], who[b] = "A", "B"
	x.Transition(2 + k0)
	nlate := 0
	for i := 0; i < 3; i++ {
		k := c.Choose(3)
		if k == 0 {
			break
		}
		target, tn := a, "A"
		if k == 2 {
			target, tn = b, "B"
		}
		name := fmt.Sprintf("on%s%d", tn, i)
		c.Logf("t.RegisterPropertyCallback(copy %s, RENDER, ITSELF, %s)", tn, name)
		if err := registerCB(t, target, 2, 0, &c13CopyRec{name, &log, who}); err != nil {
			x.Fail("C13.refused", []string{"cell_copies"}, "registering on a live cell was refused: %v", err)
		}
		expect[name+"@"+tn] = 1
		nlate++
		x.Transition(1)
	}
	passes := 1 + c.Choose(2)
	tags := []string{"cell_copies", fmt.Sprintf("callbacks_before_copy:%d", k0)}
	if k0 > 0 && nlate > 0 {
		tags = append(tags, "registration_on_copy_sharing_callback_list")
	}
	for p := 0; p < passes; p++ {
		log = log[:0]
		c.Logf("t.InvokeRenderCallbacks()")
		t.InvokeRenderCallbacks()
		x.Transition(1)
		x.Clause("C13.once")
		count := map[string]int{}
		for _, e := range log {
			count[e]++
		}
		for e, n := range expect {
			if count[e] != n {
				x.Fail("C13.once", tags, "pass %d: %s fired %d times, want %d; log %v (k0=%d callbacks registered before the cell was copied, then registrations on the live copies)", p+1, e, count[e], n, log, k0)
				return
			}
		}
		for e, n := range count {
			if expect[e] == 0 {
				x.Fail("C13.once", append(tags, "unexpected_invocation"), "pass %d: %s fired %d times but was never registered for that cell; log %v", p+1, e, n, log)
				return
			}
		}
	}
	x.State(fmt.Sprint("copies", k0, sameRow, nlate))
	if k0+nlate > 0 {
		x.Nontrivial(fmt.Sprint(c.path))
	}
}

type c13ColRec struct {
	name string
	log  *[]string
}

func (r *c13ColRec) UpdateProperties(po tabular.PropertyOwner) error {
	if cell, ok := po.(*tabular.Cell); ok {
		loc := cell.Location()
		*r.log = append(*r.log, fmt.Sprintf("%s@%d:%d", r.name, loc.Row, loc.Column))
	} else {
		*r.log = append(*r.log, r.name+"@<not a cell>")
	}
	return nil
}

func c13Recolumn(x *X, c *Chooser) {
	t := tabular.New()
	t.AddHeaders("h1", "h2")
	t.AddRowItems("live", "other")
	other := c.Bool() // copy into a second table instead
	dst := tabular.Table(t)
	if other {
		dst = tabular.New()
		dst.AddHeaders("g1", "g2")
	}
	when := 1 + c.Choose(3) // PRE, RENDER(optional), POST -> use 1 or 3; 2 treated as ADD
	wname := map[int]string{1: "RENDER_PRECELL", 2: "ADD", 3: "RENDER_POSTCELL"}[when]
	wi := map[int]int{1: 1, 2: 0, 3: 3}[when]
	regFirst := c.Bool()
	var log []string
	reg := func() {
		for col := 1; col <= 2; col++ {
			if err := registerCB(dst, dst.Column(col), wi, 1, &c13ColRec{fmt.Sprintf("col%d", col), &log}); err != nil {
				x.Fail("C13.refused", []string{"recolumn"}, "column CELL registration refused: %v", err)
			}
		}
	}
	c.Logf("t: headers(h1,h2), row(live, other); destination = %s; column callbacks at %s registered %s the copy", map[bool]string{false: "same table", true: "second table"}[other], wname, map[bool]string{true: "before", false: "after"}[regFirst])
	if regFirst {
		reg()
	}
	live, err := t.CellAt(tabular.CellLocation{Row: 1, Column: 1})
	if err != nil {
		panic("harness: " + err.Error())
	}
	r2 := tabular.NewRow()
	r2.Add(tabular.NewCell("pad")).Add(*live)
	log = log[:0]
	dst.AddRow(r2)
	c.Logf("r2 := NewRow().Add(NewCell(pad)).Add(*t.CellAt(1,1)); dst.AddRow(r2)")
	x.Transition(3)
	rowNum := dst.NRows()
	tags := []string{"recolumn", "live_cell_copied_to_another_column"}
	expect := func(what string) bool {
		count := map[string]int{}
		for _, e := range log {
			count[e]++
		}
		want := map[string]int{fmt.Sprintf("col1@%d:1", rowNum): 1, fmt.Sprintf("col2@%d:2", rowNum): 1}
		if what == "render" && !other {
			want["col1@1:1"], want["col2@1:2"] = 1, 1
		}
		x.Clause("C13.once")
		for k, n := range want {
			if count[k] != n {
				x.Fail("C13.once", tags, "%s: %s fired %d times, want %d; log %v", what, k, count[k], n, log)
				return false
			}
		}
		for k, n := range count {
			if want[k] == 0 {
				x.Fail("C13.once", append(tags, "unexpected_invocation"), "%s: %s fired %d times but that cell is not in that column; log %v", what, k, n, log)
				return false
			}
		}
		return true
	}
	if when == 2 {
		if regFirst && !expect("AddRow") {
			return
		}
		x.State(fmt.Sprint("recolumn-add", other, regFirst))
		x.Nontrivial(fmt.Sprint(c.path))
		return
	}
	if !regFirst {
		reg()
	}
	passes := 1 + c.Choose(2)
	for p := 0; p < passes; p++ {
		log = log[:0]
		dst.InvokeRenderCallbacks()
		x.Transition(1)
		if !expect("render") {
			return
		}
	}
	x.State(fmt.Sprint("recolumn", other, when, regFirst))
	x.Nontrivial(fmt.Sprint(c.path))
}

type c13Counter struct{ n int }

func (k *c13Counter) UpdateProperties(po tabular.PropertyOwner) error { k.n++; return nil }

func c13Counts(cbs []*c13Counter) []int {
	out := make([]int, len(cbs))
	for i, c := range cbs {
		out[i] = c.n
	}
	return out
}
