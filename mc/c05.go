package main

import (
	"fmt"
	"strings"
	"time"

	"go.pennock.tech/tabular"
	"go.pennock.tech/tabular/csv"
)

// C05 — CSV output parses back, under RFC 4180 quoting, to exactly the table.

var c05Atoms = []string{"a", `"`, ",", "\r", "\n", "\x00", "é", "\xff"}

func init() {
	register(&Check{
		ID:        "C05",
		Level:     "exploration",
		Technique: "bounded exhaustive input enumeration (all byte strings over an 8-atom alphabet in every field position; all small table shapes) rendered by the real code and parsed back by an independent strict RFC 4180 state machine",
		Rule: "family field-bytes: every string of <=3 (thorough <=4) atoms over {a, quote, comma, CR, LF, NUL, e-acute, invalid byte 0xff} in each of 7 field positions (only/first/last, header/body, padded short row), thorough also all pairs of two fields varying together (<=2 atoms each); " +
			"family lifecycle: one table and one long-lived wrapper, every sequence of <=4 (thorough 5) operations over in-place modifications (items mutated to same-width/wider/narrower/multi-line/hostile text + Update, headers replaced incl. width swap and duplicates, rows grown, cell added to an attached row), Render and failed RenderTo, each Render judged against the current content; family render-after-failed-render: a long-lived wrapper whose RenderTo failed at any write index/mode, then rendered again; family shapes: every shape with header none/0..3 cells (added first or last), <=2 rows (thorough <=3) each a separator or 0..3 cells, every cell text drawn from {serial, empty, quote-comma-newline}; " +
			"non-trivial = the varied text needs quoting/escaping or the shape is ragged/has zero-cell rows/separators/no header; distinct by (position,text) or (shape,texts)",
		Assumptions: []string{"record terminator LF or CRLF both accepted by the parser (the code emits LF)", "field separator is the default comma"},
		QuickBudget: 90 * time.Second, ThoroughBudget: 15 * time.Minute,
		Run: runC05,
	})
}

// parseCSVStrict accepts only all-fields-quoted RFC 4180 records, each terminated by LF or CRLF.
func parseCSVStrict(s string) ([][]string, error) {
	var recs [][]string
	i := 0
	for i < len(s) {
		var rec []string
		for {
			if i >= len(s) || s[i] != '"' {
				return nil, fmt.Errorf("offset %d: field does not start with a double quote", i)
			}
			i++
			var f []byte
			for {
				if i >= len(s) {
					return nil, fmt.Errorf("offset %d: unterminated quoted field", i)
				}
				if s[i] == '"' {
					if i+1 < len(s) && s[i+1] == '"' {
						f = append(f, '"')
						i += 2
						continue
					}
					i++
					break
				}
				f = append(f, s[i])
				i++
			}
			rec = append(rec, string(f))
			if i >= len(s) {
				return nil, fmt.Errorf("offset %d: record not terminated by a newline", i)
			}
			if s[i] == ',' {
				i++
				continue
			}
			if s[i] == '\n' {
				i++
				break
			}
			if s[i] == '\r' && i+1 < len(s) && s[i+1] == '\n' {
				i += 2
				break
			}
			return nil, fmt.Errorf("offset %d: byte %q after closing quote", i, s[i])
		}
		recs = append(recs, rec)
	}
	return recs, nil
}

func c05Check(x *X, c *Chooser, g *Grid, extraTags []string) {
	t := csv.New()
	g.Build(t)
	c.Logf("table: %s", g.String())
	tags := append(g.Tags(), extraTags...)
	var out string
	var err error
	if p, val, site := Safe(func() { out, err = t.Render() }); p {
		x.FailSite("C05.no_panic", append(tags, "panic"), site, "csv Render panicked: %v on %s", val, g)
		return
	}
	c05Judge(x, g, tags, out, err)
}

func c05Judge(x *X, g *Grid, tags []string, out string, err error) {
	ncols := g.NCols()
	if ncols == 0 {
		x.Clause("C05.no_columns_refused")
		if err == nil || out != "" {
			x.Fail("C05.no_columns_refused", tags, "table without columns: Render returned (%q, %v), want an error and no text; table %s", out, err, g)
		}
		x.Outcome("refused")
		return
	}
	x.Clause("C05.succeeds")
	if err != nil {
		x.Fail("C05.succeeds", tags, "csv Render failed: %v on %s", err, g)
		return
	}
	x.Clause("C05.parses_strictly")
	recs, perr := parseCSVStrict(out)
	if perr != nil {
		x.Fail("C05.parses_strictly", tags, "output %q is not strict all-quoted RFC 4180: %v; table %s", out, perr, g)
		return
	}
	want := g.ExpectedRecords()
	x.Clause("C05.records")
	if len(recs) != len(want) {
		x.Fail("C05.records", tags, "%d records parsed, want %d (header + non-separator rows); output %q table %s", len(recs), len(want), out, g)
		return
	}
	for i := range want {
		x.Clause("C05.field_count")
		if len(recs[i]) != ncols {
			x.Fail("C05.field_count", tags, "record %d has %d fields, table has %d columns; output %q table %s", i, len(recs[i]), ncols, out, g)
			return
		}
		for j := range want[i] {
			x.Clause("C05.field_bytes")
			if recs[i][j] != want[i][j] {
				x.Fail("C05.field_bytes", tags, "record %d field %d parses to %q, cell text is %q; output %q table %s", i, j, recs[i][j], want[i][j], out, g)
				return
			}
		}
	}
	x.Outcome(fmt.Sprintf("ok %d recs %d cols q%v", len(recs), ncols, strings.Contains(out, `""""`)))
}

func c05String(c *Chooser, maxLen int) string {
	var sb strings.Builder
	for i := 0; i < maxLen; i++ {
		a := c.Choose(len(c05Atoms) + 1)
		if a == 0 {
			break
		}
		sb.WriteString(c05Atoms[a-1])
	}
	return sb.String()
}

// positions for the varied field
var c05Positions = []struct {
	name string
	mk   func(s, s2 string) *Grid
}{
	{"only body cell", func(s, s2 string) *Grid { return &Grid{Rows: []GridRow{{Cells: []string{s}}}} }},
	{"only header cell", func(s, s2 string) *Grid {
		return &Grid{HasHeader: true, Header: []string{s}, Rows: []GridRow{{Cells: []string{s2}}}}
	}},
	{"first of two", func(s, s2 string) *Grid {
		return &Grid{HasHeader: true, Header: []string{"h", "i"}, Rows: []GridRow{{Cells: []string{s, s2}}}}
	}},
	{"last of two", func(s, s2 string) *Grid {
		return &Grid{HasHeader: true, Header: []string{"h", "i"}, Rows: []GridRow{{Cells: []string{s2, s}}}}
	}},
	{"last header of two", func(s, s2 string) *Grid {
		return &Grid{HasHeader: true, Header: []string{s2, s}, Rows: []GridRow{{Cells: []string{"x", "y"}}}}
	}},
	{"short row before padding", func(s, s2 string) *Grid {
		return &Grid{HasHeader: true, Header: []string{"h", "i", "j"}, Rows: []GridRow{{Cells: []string{s}}, {Cells: []string{s2, s, s2}}}}
	}},
	{"middle of three, second row", func(s, s2 string) *Grid {
		return &Grid{Rows: []GridRow{{Cells: []string{"x", "y", "z"}}, {Sep: true}, {Cells: []string{s2, s, s2}}}}
	}},
}

// c05CheckOutput applies the parse-back oracle to an output obtained elsewhere.
func c05AfterFailure(x *X) {
	grids := []*Grid{
		{HasHeader: true, Header: []string{"h1", "h2"}, Rows: []GridRow{{Cells: []string{"a", `q"x`}}, {Sep: true}, {Cells: []string{"c"}}}},
		{Rows: []GridRow{{Cells: []string{"a,b", "c\nd", ""}}, {Cells: []string{}}}},
	}
	x.Explore("render-after-failed-render", ExploreOpts{ShardDepth: 2, Bound: "2 tables x every Write index k x {fail from k on, fail only at k, partial write + error} on a long-lived wrapper, then a successful Render judged by the full oracle"}, func(c *Chooser) {
		g := grids[c.Choose(len(grids))]
		probe := csv.New()
		g.Build(probe)
		fw := &faultWriter{}
		probe.RenderTo(fw)
		if fw.calls == 0 {
			c.Choose(1)
			return
		}
		k := 1 + c.Choose(fw.calls)
		mode := 1 + c.Choose(3)
		t := csv.New()
		g.Build(t)
		c.Logf("table %s: RenderTo(writer failing at call %d, mode %d), then Render() on the same wrapper", g, k, mode)
		x.Transition(2)
		x.Nontrivial(fmt.Sprint(g.ShapeKey(), k, mode))
		tags := append(g.Tags(), "render_after_failed_render")
		var out string
		var err error
		if p, val, site := Safe(func() { t.RenderTo(&faultWriter{mode: mode, k: k}); out, err = t.Render() }); p {
			x.FailSite("C05.no_panic", append(tags, "panic"), site, "csv panicked: %v", val)
			return
		}
		c05Judge(x, g, tags, out, err)
	})
}

// nestedWriter: before it accepts the bytes of its k-th Write it renders ANOTHER table as csv (whatever the renderer
// holds on to between producing a record and handing it to the writer is then in use by the inner render).
type nestedWriter struct {
	buf         strings.Builder
	calls       int
	at          int // 0 = on every call
	inner       *Grid
	renderInner func(g *Grid) (string, error)
	innerOut    []string
}

func (w *nestedWriter) Write(p []byte) (int, error) {
	w.calls++
	if w.at == 0 || w.calls == w.at {
		o, _ := w.renderInner(w.inner)
		w.innerOut = append(w.innerOut, o)
	}
	return w.buf.Write(p)
}

func c05Reentrant(x *X) {
	grids := []*Grid{
		{HasHeader: true, Header: []string{"h1", "h2"}, Rows: []GridRow{{Cells: []string{"a", `q"x`}}, {Sep: true}, {Cells: []string{"c"}}, {Cells: []string{"longer-field-1", "longer-field-2"}}}},
		{Rows: []GridRow{{Cells: []string{"a,b", "c\nd", ""}}, {Cells: []string{}}}},
	}
	inner := &Grid{HasHeader: true, Header: []string{"INNER-HEADER-ONE", "INNER-HEADER-TWO", "3"}, Rows: []GridRow{{Cells: []string{"inner \"cell\" that is fairly long", "i2", "i3"}}, {Cells: []string{"i4"}}}}
	renderInner := func(g *Grid) (string, error) {
		t := csv.New()
		g.Build(t)
		return t.Render()
	}
	x.Explore("re-entrant-writer", ExploreOpts{ShardDepth: 2, Bound: "2 tables x a writer that renders another csv table before accepting its k-th Write (every k, and on every Write); outer and inner outputs judged by the full oracle"}, func(c *Chooser) {
		g := grids[c.Choose(len(grids))]
		probe := csv.New()
		g.Build(probe)
		fw := &faultWriter{}
		probe.RenderTo(fw)
		k := c.Choose(fw.calls + 1)
		t := csv.New()
		g.Build(t)
		c.Logf("table %s rendered to a writer that renders a second csv table before accepting Write #%d (0 = every Write)", g, k)
		x.Transition(1)
		x.Nontrivial(fmt.Sprint(g.ShapeKey(), k))
		tags := append(g.Tags(), "re_entrant_writer")
		w := &nestedWriter{at: k, inner: inner, renderInner: renderInner}
		var err error
		if p, val, site := Safe(func() { err = t.RenderTo(w) }); p {
			x.FailSite("C05.no_panic", append(tags, "panic"), site, "csv panicked: %v", val)
			return
		}
		c05Judge(x, g, tags, w.buf.String(), err)
		for _, o := range w.innerOut {
			c05Judge(x, inner, append(tags, "inner_render"), o, nil)
		}
	})
}

func runC05(x *X) {
	runC05Items(x)
	c05AfterFailure(x)
	c05Reentrant(x)
	ldepth := x.Pick(4, 5)
	lops := lifeOps(false, false)
	x.Explore("lifecycle", ExploreOpts{ShardDepth: 2, Bound: fmt.Sprintf("one table + one long-lived csv wrapper: all sequences of <=%d operations over %d in-place modifications, Render, failed RenderTo", ldepth, len(lops))}, func(c *Chooser) {
		lifecycle(x, c, "C05", ldepth, lops, false, func(t tabular.Table) lifeRenderer { return csv.Wrap(t) },
			func(m *lifeModel, tags []string, out string, err error) { c05Judge(x, m.grid(), tags, out, err) })
	})
	long := LongTexts(`"`)
	x.Explore("long-texts", ExploreOpts{ShardDepth: 2, Bound: fmt.Sprintf("7 positions x %d long texts (63..1025 bytes, with a quote in the middle/at the end, multi-byte, 40 lines)", len(long))}, func(c *Chooser) {
		p := c05Positions[c.Choose(len(c05Positions))]
		s := long[c.Choose(len(long))]
		c.Logf("position=%s text of %d bytes", p.name, len(s))
		x.Transition(1)
		x.Nontrivial(fmt.Sprint(p.name, len(s), hashStr(s)))
		c05Check(x, c, p.mk(s, "x"), []string{"position:" + p.name, "long_text"})
	})
	wide := WideGrids()
	x.Explore("wide", ExploreOpts{Bound: "1 table of 56 rows and 4 tables of 10-13 columns (ragged, zero-cell row, separator, header added last, no header) x one hostile text in each column position in turn"}, func(c *Chooser) {
		g0 := wide[c.Choose(len(wide))]
		g := &Grid{HasHeader: g0.HasHeader, Header: append([]string{}, g0.Header...), HeaderLast: g0.HeaderLast}
		for _, r := range g0.Rows {
			g.Rows = append(g.Rows, GridRow{Sep: r.Sep, Cells: append([]string{}, r.Cells...)})
		}
		col := c.Choose(g.NCols() + 1) // 0 = none
		if col > 0 {
			g.EachCell(func(kind string, row, cl int, p *string) {
				if cl == col-1 {
					*p = `q",` + "\n" + *p
				}
			})
		}
		x.Transition(1)
		x.Nontrivial(fmt.Sprint(g.ShapeKey(), col))
		c05Check(x, c, g, []string{"ten_or_more_columns"})
	})
	maxLen := x.Pick(3, 4)
	x.Explore("field-bytes", ExploreOpts{ShardDepth: 2, Bound: fmt.Sprintf("7 positions x all strings of <=%d atoms over %d atoms", maxLen, len(c05Atoms))}, func(c *Chooser) {
		p := c05Positions[c.Choose(len(c05Positions))]
		s := c05String(c, maxLen)
		c.Logf("position=%s text=%q", p.name, s)
		x.Transition(1)
		if strings.ContainsAny(s, "\",\r\n\x00\xff") {
			x.Nontrivial(p.name + "\x00" + s)
		}
		c05Check(x, c, p.mk(s, "x"), []string{"position:" + p.name})
	})
	if x.Thorough() {
		x.Explore("field-pairs", ExploreOpts{ShardDepth: 2, Bound: "7 positions x all pairs of strings of <=2 atoms"}, func(c *Chooser) {
			p := c05Positions[c.Choose(len(c05Positions))]
			s := c05String(c, 2)
			s2 := c05String(c, 2)
			c.Logf("position=%s text=%q other=%q", p.name, s, s2)
			x.Transition(1)
			x.Nontrivial(p.name + "\x00" + s + "\x00" + s2)
			c05Check(x, c, p.mk(s, s2), []string{"position:" + p.name})
		})
	}
	pool := []string{"", "", `q",` + "\n"}
	x.Explore("shapes", ExploreOpts{ShardDepth: 2, Bound: fmt.Sprintf("header none/0..3 (first/last), <=%d rows of sep|0..3 cells, cell texts from a 3-pool", x.Pick(2, 3))}, func(c *Chooser) {
		g := ChooseShape(c, ShapeCfg{MaxRows: x.Pick(2, 3), MaxCells: 3, Header: []int{-1, 0, 1, 2, 3}, Sep: true, HeaderLast: true})
		n := 0
		g.EachCell(func(kind string, row, col int, p *string) {
			n++
			k := c.Choose(len(pool))
			if k == 0 {
				*p = fmt.Sprintf("c%d", n)
			} else {
				*p = pool[k]
			}
		})
		x.Transition(1 + len(g.Rows))
		if g.Nontrivial() {
			x.Nontrivial(g.String())
		}
		x.State(g.ShapeKey())
		c05Check(x, c, g, nil)
	})
}

var _ = tabular.New
