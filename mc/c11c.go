package main

// C11, family "neighbouring-containers": several error holders created one right after the other (two tables, a
// detached row, a bare container) and filled in any interleaving past the initial capacity of 10 errors.  What one
// of them is given must never show in, or vanish from, another.

import (
	"fmt"

	"go.pennock.tech/tabular"
)

func runC11Neighbours(x *X) {
	x.Explore("neighbouring-containers", ExploreOpts{ShardDepth: 2, Bound: "4 holders created back to back (table A, detached row, table B, NewErrorContainer) x every order of filling them in bursts of 1/9/10/11/12 errors, <=4 bursts; optionally the row is then attached to A or B; every holder's list compared with what it was given"}, func(c *Chooser) {
		ta := tabular.New()
		row := tabular.NewRow()
		tb := tabular.New()
		ec := tabular.NewErrorContainer()
		type holder struct {
			name string
			add  func(error)
			errs func() []error
			want []int
		}
		hs := []*holder{
			{name: "table A", add: func(e error) { ta.AddError(e) }, errs: func() []error { return ta.Errors() }},
			{name: "detached row", add: func(e error) { row.AddError(e) }, errs: func() []error { return row.Errors() }},
			{name: "table B", add: func(e error) { tb.AddError(e) }, errs: func() []error { return tb.Errors() }},
			{name: "container", add: func(e error) { ec.AddError(e) }, errs: func() []error { return ec.Errors() }},
		}
		serial := 0
		var ops []string
		check := func() bool {
			x.Clause("C11.reported_once")
			for _, h := range hs {
				var got []int
				for _, e := range h.errs() {
					if se, ok := e.(serialErr); ok {
						got = append(got, se.serial)
					} else {
						got = append(got, -1)
					}
				}
				if fmt.Sprint(got) != fmt.Sprint(h.want) && !(len(got) == 0 && len(h.want) == 0) {
					what := "lost"
					if len(got) >= len(h.want) {
						what = "foreign_or_duplicated"
					}
					x.Fail("C11.reported_once", []string{"neighbouring_containers", what, "more_than_10_errors_in_one_holder"}, "%s reports serials %v, it was given exactly %v; operations %v", h.name, got, h.want, ops)
					return false
				}
			}
			return true
		}
		for burst := 0; burst < 4; burst++ {
			k := c.Choose(len(hs)*5 + 1)
			if k == 0 {
				break
			}
			k--
			h := hs[k/5]
			n := []int{1, 9, 10, 11, 12}[k%5]
			ops = append(ops, fmt.Sprintf("%d x %s.AddError", n, h.name))
			c.Logf("%d x %s.AddError(E%d..)", n, h.name, serial+1)
			for i := 0; i < n; i++ {
				serial++
				h.want = append(h.want, serial)
				h.add(serialErr{serial, h.name})
			}
			x.Transition(1)
			if !check() {
				return
			}
		}
		if a := c.Choose(3); a > 0 {
			// the detached row joins one of the tables: its errors become that table's, in order, after the table's own
			dst, t := hs[0], ta
			if a == 2 {
				dst, t = hs[2], tb
			}
			c.Logf("%s.AddRow(row)", dst.name)
			ops = append(ops, dst.name+".AddRow(row)")
			t.AddRow(row)
			dst.want = append(dst.want, hs[1].want...)
			// the attached row reports its table's list; model that by sharing the expectation
			hs[1] = &holder{name: "row (attached to " + dst.name + ")", errs: func() []error { return row.Errors() }, want: dst.want}
			x.Transition(1)
			if !check() {
				return
			}
		}
		x.State(fmt.Sprint(ops))
		if serial > 10 {
			x.Nontrivial(fmt.Sprint(ops))
		}
	})
}
