package main

// C13, further families:
//  - column-handle-across-growth: a column handle taken while the table is narrow, the table then grows
//    past the capacity of its column list; callbacks registered through the OLD handle (before or after the
//    growth) must fire once per target per pass and be handed the live column.
//  - refusal-then-valid (inside c13Run, mode "refusal"): a refused registration between two valid ones
//    must not disturb where the valid ones land.

import (
	"fmt"
	"sort"

	"go.pennock.tech/tabular"
	"go.pennock.tech/tabular/csv"
	thtml "go.pennock.tech/tabular/html"
	"go.pennock.tech/tabular/markdown"
	"go.pennock.tech/tabular/texttable"
)

type c13GrowRec struct {
	log     *[]string
	t       *tabular.ATable
	k       int
	pass    *int
	problem *string
}

func (r *c13GrowRec) UpdateProperties(po tabular.PropertyOwner) error {
	switch v := po.(type) {
	case *tabular.Cell:
		loc := v.Location()
		*r.log = append(*r.log, fmt.Sprintf("cell@%d:%d", loc.Row, loc.Column))
	default:
		*r.log = append(*r.log, "column")
		if po != tabular.PropertyOwner(r.t.Column(r.k)) && *r.problem == "" {
			*r.problem = fmt.Sprintf("the callback was handed a %T that is not t.Column(%d)", po, r.k)
		}
		po.SetProperty("seen-in-pass", *r.pass)
	}
	return nil
}

func c13ColumnGrowth(x *X, c *Chooser) {
	w0 := []int{1, 2, 5, 9}[c.Choose(4)]
	k := 1
	if w0 > 1 && c.Bool() {
		k = w0
	}
	var grow int
	for {
		grow = []int{0, 10, 11, 17, 33}[c.Choose(5)]
		if grow == 0 {
			grow = w0 + 1
		}
		break
	}
	if grow <= w0 {
		return
	}
	how := c.Choose(3)
	when := []int{1, 3}[c.Choose(2)]
	target := c.Choose(2)
	regAfter := c.Bool()
	t := tabular.New()
	hs := make([]interface{}, w0)
	for i := range hs {
		hs[i] = fmt.Sprintf("h%d", i+1)
	}
	t.AddHeaders(hs...)
	t.AddRowItems(hs...)
	h := t.Column(k)
	var log []string
	var problem string
	pass := 0
	rec := &c13GrowRec{&log, t, k, &pass, &problem}
	reg := func() bool {
		if err := registerCB(t, h, when, target, rec); err != nil {
			x.Fail("C13.refused", []string{"column_handle_across_growth"}, "column %s/%s registration through a handle refused: %v", cbTimeNames[when], cbTargetNames[target], err)
			return false
		}
		return true
	}
	hown := []string{"AddRowItems", "AddHeaders", "Add on the attached row, one cell at a time"}[how]
	c.Logf("table of %d columns (headers + 1 row); h := t.Column(%d); grow to %d columns by %s; column %s/%s callback registered through h %s the growth", w0, k, grow, hown, cbTimeNames[when], cbTargetNames[target], map[bool]string{false: "before", true: "after"}[regAfter])
	if !regAfter && !reg() {
		return
	}
	bodyCellsInK := 1
	items := make([]interface{}, grow)
	for i := range items {
		items[i] = fmt.Sprintf("g%d", i+1)
	}
	switch how {
	case 0:
		t.AddRowItems(items...)
		bodyCellsInK++
	case 1:
		t.AddHeaders(items...)
	case 2:
		r := t.AllRows()[0]
		for i := w0; i < grow; i++ {
			r.Add(tabular.NewCell(items[i]))
		}
	}
	x.Transition(2)
	if regAfter && !reg() {
		return
	}
	tags := []string{"column_handle_across_growth", fmt.Sprintf("columns:%d->%d", w0, grow), "grown_by:" + hown}
	if regAfter {
		tags = append(tags, "registered_through_old_handle_after_growth")
	}
	x.Clause("C13.live")
	if tabular.PropertyOwner(h) != tabular.PropertyOwner(t.Column(k)) {
		// the statement promises the LIVE column to callbacks; a handle taken earlier staying live is C12's business,
		// here it only decides which object the registration below must be observed on
		tags = append(tags, "old_handle_no_longer_the_live_column")
	}
	passes := 1 + c.Choose(2)
	for pass = 1; pass <= passes; pass++ {
		log = log[:0]
		t.InvokeRenderCallbacks()
		x.Transition(1)
		count := map[string]int{}
		for _, e := range log {
			count[e]++
		}
		x.Clause("C13.once")
		if target == 0 {
			if count["column"] != 1 || len(log) != 1 {
				x.Fail("C13.once", tags, "pass %d: the column's %s/ITSELF callback fired %d times (log %v), want exactly once", pass, cbTimeNames[when], count["column"], log)
				return
			}
			x.Clause("C13.live")
			if problem != "" {
				x.Fail("C13.live", tags, "pass %d: %s", pass, problem)
				return
			}
			if got := t.Column(k).GetProperty("seen-in-pass"); got != pass {
				x.Fail("C13.live", tags, "pass %d: the property set by the callback on the object it was handed reads %v through t.Column(%d)", pass, got, k)
				return
			}
		} else {
			n := 0
			for e, cnt := range count {
				var r, cc int
				if _, err := fmt.Sscanf(e, "cell@%d:%d", &r, &cc); err != nil || cc != k {
					x.Fail("C13.once", append(tags, "unexpected_invocation"), "pass %d: column %d's CELL callback fired on %s; log %v", pass, k, e, log)
					return
				}
				if cnt != 1 {
					x.Fail("C13.once", tags, "pass %d: column %d's CELL callback fired %d times on %s; log %v", pass, k, cnt, e, log)
					return
				}
				if r >= 1 {
					n++
				}
			}
			if n != bodyCellsInK {
				x.Fail("C13.once", tags, "pass %d: column %d's %s/CELL callback fired on %d body cells, the column has %d; log %v", pass, k, cbTimeNames[when], n, bodyCellsInK, log)
				return
			}
		}
	}
	x.State(fmt.Sprint("growth", w0, k, grow, how))
	x.Nontrivial(fmt.Sprint(c.path))
}

// family "row-callback-appends-cell": an add-time ROW callback (the table's, or the row's own) adds a cell to the
// very row that is being attached; the table- and column-level add-time CELL callbacks that follow must still be
// handed the LIVE cells of that row (the append may have moved them) exactly once each.
type c13AppendCB struct {
	done map[*tabular.Row]bool
}

func (a *c13AppendCB) UpdateProperties(po tabular.PropertyOwner) error {
	if r, ok := po.(*tabular.Row); ok && !a.done[r] && !r.IsSeparator() {
		a.done[r] = true
		r.Add(tabular.NewCell("appended-by-callback"))
	}
	return nil
}

type c13LiveRec struct {
	name  string
	hits  map[*tabular.Cell]int
	texts []string
}

func (l *c13LiveRec) UpdateProperties(po tabular.PropertyOwner) error {
	if cp, ok := po.(*tabular.Cell); ok {
		l.hits[cp]++
		l.texts = append(l.texts, cp.String())
		cp.SetProperty("seen-by-"+l.name, true)
	}
	return nil
}

func c13RowCallbackAppends(x *X, c *Chooser) {
	n0 := 1 + c.Choose(3)
	ctor := c.Choose(4)  // AddRowItems | NewRow | NewRowWithCapacity(n0) | NewRowSizedFor
	owner := c.Choose(2) // appender registered on the table (ROW) | on the row itself (only for detached constructors)
	recOn := c.Choose(2) // recording CELL callback on the table | on column 1
	hdr := c.Bool()
	if owner == 1 && ctor == 0 {
		return
	}
	if recOn == 1 && !hdr {
		return // column 1 does not exist before the first row or header
	}
	t := tabular.New()
	if hdr {
		t.AddHeaders("h1", "h2")
	}
	app := &c13AppendCB{done: map[*tabular.Row]bool{}}
	rec := &c13LiveRec{name: "rec", hits: map[*tabular.Cell]int{}}
	tags := []string{"row_callback_appends_cell", "add_time_callback_modifies_the_row_being_added"}
	var recOwner tabular.PropertyOwner = t
	if recOn == 1 {
		recOwner = t.Column(1)
	}
	items := make([]interface{}, n0)
	for i := range items {
		items[i] = fmt.Sprintf("c%d", i)
	}
	var row *tabular.Row
	switch ctor {
	case 1:
		row = tabular.NewRow()
	case 2:
		row = tabular.NewRowWithCapacity(n0)
	case 3:
		row = t.NewRowSizedFor()
	}
	if row != nil {
		for _, it := range items {
			row.Add(tabular.NewCell(it))
		}
	}
	var err error
	if owner == 0 {
		err = registerCB(t, t, 0, 2, app)
	} else {
		err = registerCB(t, row, 0, 0, app)
	}
	if err != nil {
		x.Fail("C13.refused", tags, "registering the appending callback was refused: %v", err)
		return
	}
	if err := registerCB(t, recOwner, 0, 1, rec); err != nil {
		x.Fail("C13.refused", tags, "registering the recording CELL callback was refused: %v", err)
		return
	}
	c.Logf("row of %d cells via %s; appending callback on %s; recording ADD/CELL callback on %s; header: %v", n0, []string{"AddRowItems", "NewRow", "NewRowWithCapacity(exact)", "NewRowSizedFor"}[ctor], []string{"table/ADD/ROW", "row/ADD/ITSELF"}[owner], []string{"table", "column 1"}[recOn], hdr)
	if row == nil {
		t.AddRowItems(items...)
	} else {
		t.AddRow(row)
	}
	x.Transition(1)
	live := t.AllRows()[0].Cells()
	x.Clause("C13.live")
	for cp, n := range rec.hits {
		found := false
		for i := range live {
			if cp == &live[i] {
				found = true
			}
		}
		if !found {
			x.Fail("C13.live", tags, "the add-time CELL callback was handed a cell (%q, %d time(s)) that is not one of the row's cells as reachable through the table afterwards (texts seen %v)", cp.String(), n, rec.texts)
			return
		}
	}
	x.Clause("C13.once")
	last := n0
	if recOn == 1 {
		last = 1
	}
	for i := 0; i < last; i++ {
		cp, err := t.CellAt(tabular.CellLocation{Row: 1, Column: i + 1})
		if err != nil {
			x.Fail("C13.once", tags, "CellAt(1,%d): %v", i+1, err)
			return
		}
		if rec.hits[cp] != 1 {
			x.Fail("C13.once", tags, "original cell %d (%q) of the row was handed to the add-time CELL callback %d times, want once (texts seen %v)", i+1, cp.String(), rec.hits[cp], rec.texts)
			return
		}
		x.Clause("C13.live")
		if cp.GetProperty("seen-by-rec") != true {
			x.Fail("C13.live", tags, "the property the callback set on original cell %d is not visible through the table", i+1)
			return
		}
	}
	for cp, n := range rec.hits {
		if n > 1 {
			x.Fail("C13.once", tags, "cell %q was handed to the add-time CELL callback %d times", cp.String(), n)
			return
		}
	}
	x.State(fmt.Sprint("append", n0, ctor, owner, recOn, hdr))
	x.Nontrivial(fmt.Sprint(c.path))
}

// family "owner-given-as-wrapper": the table owner of a registration is handed over as a renderer wrapper (possibly a
// wrapper of a wrapper) around table B, and the call is made on B itself, on one of its wrappers, or on an unrelated
// table A.  The callback belongs to B: it fires in B's passes on B's targets, never in A's.
type c13WhoRec struct {
	hits []string
	a, b *tabular.ATable
}

func (r *c13WhoRec) UpdateProperties(po tabular.PropertyOwner) error {
	switch v := po.(type) {
	case *tabular.ATable:
		switch v {
		case r.a:
			r.hits = append(r.hits, "table A")
		case r.b:
			r.hits = append(r.hits, "table B")
		default:
			r.hits = append(r.hits, "an unknown table")
		}
		v.SetProperty("seen", true)
	case *tabular.Cell:
		r.hits = append(r.hits, "cell "+v.String())
	default:
		r.hits = append(r.hits, fmt.Sprintf("%T", po))
	}
	return nil
}

func c13OwnerAsWrapper(x *X, c *Chooser) {
	a, b := tabular.New(), tabular.New()
	a.AddHeaders("ah")
	a.AddRowItems("a1")
	b.AddHeaders("bh")
	b.AddRowItems("b1")
	b.AddRowItems("b2")
	ownerForms := []struct {
		name string
		mk   func() tabular.PropertyOwner
	}{
		{"B itself", func() tabular.PropertyOwner { return b }},
		{"texttable.Wrap(B)", func() tabular.PropertyOwner { return texttable.Wrap(b) }},
		{"csv.Wrap(texttable.Wrap(B))", func() tabular.PropertyOwner { return csv.Wrap(texttable.Wrap(b)) }},
		{"markdown.Wrap(B)", func() tabular.PropertyOwner { return markdown.Wrap(b) }},
	}
	via := []struct {
		name string
		t    func() tabular.Table
	}{
		{"B", func() tabular.Table { return b }},
		{"html.Wrap(B)", func() tabular.Table { return thtml.Wrap(b) }},
		{"the unrelated table A", func() tabular.Table { return a }},
		{"texttable.Wrap(A)", func() tabular.Table { return texttable.Wrap(a) }},
	}
	of := ownerForms[c.Choose(len(ownerForms))]
	vt := via[c.Choose(len(via))]
	when := 1 + c.Choose(3)
	target := c.Choose(2)
	rec := &c13WhoRec{a: a, b: b}
	tags := []string{"owner_given_as_wrapper", "owner:" + of.name, "via:" + vt.name}
	c.Logf("%s.RegisterPropertyCallback(%s, %s, %s)", vt.name, of.name, cbTimeNames[when], cbTargetNames[target])
	if err := registerCB(vt.t(), of.mk(), when, target, rec); err != nil {
		x.Fail("C13.refused", tags, "registering on the table owner given as %s through %s was refused: %v", of.name, vt.name, err)
		return
	}
	x.Transition(1)
	a.InvokeRenderCallbacks()
	x.Clause("C13.once")
	if len(rec.hits) != 0 {
		x.Fail("C13.once", append(tags, "fired_on_another_table"), "the callback registered for table B fired during a pass over the unrelated table A: %v", rec.hits)
		return
	}
	for pass := 1; pass <= 2; pass++ {
		rec.hits = nil
		b.InvokeRenderCallbacks()
		x.Transition(1)
		want := []string{"table B"}
		if target == 1 {
			want = []string{"cell bh", "cell b1", "cell b2"}
		}
		if when == 2 && target == 0 {
			// table/RENDER/ITSELF is accepted but the statement names no event for it
			if len(rec.hits) > 1 {
				x.Fail("C13.once", tags, "pass %d over B: table/RENDER/ITSELF fired %d times: %v", pass, len(rec.hits), rec.hits)
				return
			}
			continue
		}
		got := append([]string{}, rec.hits...)
		sort.Strings(got)
		w := append([]string{}, want...)
		sort.Strings(w)
		if fmt.Sprint(got) != fmt.Sprint(w) {
			x.Fail("C13.once", tags, "pass %d over B: the callback fired on %v, want exactly %v", pass, rec.hits, want)
			return
		}
	}
	x.Clause("C13.live")
	if target == 0 && when != 2 && b.GetProperty("seen") != true {
		x.Fail("C13.live", tags, "the property the callback set on the table it was handed is not visible on B")
		return
	}
	if a.GetProperty("seen") != nil {
		x.Fail("C13.live", append(tags, "fired_on_another_table"), "the callback set its property on the unrelated table A")
		return
	}
	x.State(fmt.Sprint(of.name, vt.name, when, target))
	x.Nontrivial(fmt.Sprint(c.path))
}

// family "header-row-callbacks": the header row is a row of the table too.  The only public way to it is the
// add-time ROW callback that sees it during AddHeaders; render-time callbacks registered on it then fire once per
// pass (ITSELF/ROW) or once per header cell (CELL), like on any other row.
type c13Capture struct{ rows []*tabular.Row }

func (k *c13Capture) UpdateProperties(po tabular.PropertyOwner) error {
	if r, ok := po.(*tabular.Row); ok {
		k.rows = append(k.rows, r)
	}
	return nil
}

func c13HeaderRow(x *X, c *Chooser) {
	nh := 1 + c.Choose(3)
	when := []int{1, 3}[c.Choose(2)]
	target := c.Choose(3)
	bodyRows := c.Choose(3)
	t := tabular.New()
	capt := &c13Capture{}
	if err := registerCB(t, t, 0, 2, capt); err != nil {
		panic("harness: " + err.Error())
	}
	hs := make([]interface{}, nh)
	for i := range hs {
		hs[i] = fmt.Sprintf("h%d", i+1)
	}
	t.AddHeaders(hs...)
	if len(capt.rows) != 1 {
		// whether the table's add-time ROW callback sees the header row is not something the statement names
		x.Note("header_row_not_handed_to_add_time_row_callback")
		return
	}
	hdr := capt.rows[0]
	for i := 0; i < bodyRows; i++ {
		t.AddRowItems("a", "b")
	}
	cnt := &c13Counter{}
	tags := []string{"header_row_callbacks", "reg:row/" + cbTimeNames[when] + "/" + cbTargetNames[target]}
	if err := registerCB(t, hdr, when, target, cnt); err != nil {
		x.Fail("C13.refused", tags, "registering %s/%s on the header row was refused: %v", cbTimeNames[when], cbTargetNames[target], err)
		return
	}
	c.Logf("header of %d cells (row captured by a table ADD/ROW callback), %d body rows; %s/%s callback registered on the header row", nh, bodyRows, cbTimeNames[when], cbTargetNames[target])
	per := 1
	if target == 1 {
		per = nh
	}
	for pass := 1; pass <= 2; pass++ {
		t.InvokeRenderCallbacks()
		x.Transition(1)
		x.Clause("C13.once")
		if cnt.n != pass*per {
			x.Fail("C13.once", tags, "after pass %d the callback on the header row has fired %d times in total, want %d (%d per pass)", pass, cnt.n, pass*per, per)
			return
		}
	}
	x.State(fmt.Sprint("hdrrow", nh, when, target, bodyRows))
	x.Nontrivial(fmt.Sprint(c.path))
}
