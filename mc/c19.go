package main

import (
	"fmt"
	"sort"
	"strings"
	"sync/atomic"
	"time"

	"go.pennock.tech/tabular"
	"go.pennock.tech/tabular/auto"
	"go.pennock.tech/tabular/texttable"
	"go.pennock.tech/tabular/texttable/decoration"
)

// C19 — every advertised style works and style strings resolve as documented.

func init() {
	register(&Check{
		ID:        "C19",
		Level:     "model_checking",
		Technique: "bounded exhaustive exploration of registry histories (sequences of application-registered decoration names) x every style string derived from the listing, on the real auto/texttable/decoration packages; oracle = the documented resolution rules",
		Rule: "registry histories: every sequence of <=3 (thorough <=4) registrations over 13 name shapes (plain, upper-case, longer than 64 bytes, starting with 'texttable' or a sub-package name without a dot, containing a dot, two dots, 'texttable.'-prefixed, colliding with a sub-package name in lower and upper case, empty, with trailing dot), each execution using names unique to it; " +
			"after each history: ListStyles(); for EVERY listed name L every variant in {L, upper(L), title(L), texttable.L, L.x, L.x.y, TEXTTABLE.L} plus {texttable, texttable., nope, texttable.nope, '.'}: auto.New(variant), populate, Render, auto.Render; plus auto.Wrap/auto.Render of tables that already are renderers (other decoration, failed style, custom decoration, csv) under plain styles - the style string decides; " +
			"non-trivial = history with >=1 registration or a variant different from the listed name; distinct by (history shape, name kind, variant)",
		Assumptions: []string{"case variants of decoration names are not asserted (case-insensitivity is promised for sub-package names only)",
			"for a registered decoration whose name collides (case-insensitively) with a sub-package name, bare NAME may select either, provided it is accepted and renders",
			"the registry is process-global and cannot be reset: every execution registers names carrying a unique serial, and listing content is compared as a superset/sortedness/duplicate property"},
		QuickBudget: 120 * time.Second, ThoroughBudget: 20 * time.Minute,
		Shards: 16,
		Run:    runC19,
	})
}

var c19Serial int64

var subPackages = map[string]bool{"csv": true, "html": true, "json": true, "markdown": true}

func c19Populate(t tabular.Table) {
	t.AddHeaders("h1", "h2")
	t.AddRowItems("a", "b")
	t.AddSeparator()
	t.AddRowItems("c")
}

func c19TypeName(rt auto.RenderTable) string { return fmt.Sprintf("%T", rt) }

func runC19(x *X) {
	// name shapes; %s is replaced by a serial unique to the execution
	shapes := []struct {
		kind string
		f    string
	}{
		{"plain", "zz-%s"}, {"upper", "Fancy-%s"}, {"lower-twin-of-upper", "fancy-%s"}, {"dotted", "a%s.b"}, {"parent-of-dotted", "a%s"}, {"two-dots", "a%s.b.c"}, {"texttable-prefixed", "texttable.zz%s"},
		{"trailing-dot", "zz%s."}, {"texttable-as-prefix", "texttable-zz%s"}, {"subpackage-as-prefix", "csv-zz%s"}, {"long-name", "zz-%s-" + strings.Repeat("n", 70)}, {"subpackage-lower", "csv"}, {"subpackage-upper", "JSON"}, {"empty", ""}, {"texttable-itself", "texttable"},
	}
	maxHist := x.Pick(3, 4)
	x.Explore("styles", ExploreOpts{ShardDepth: 2, Bound: fmt.Sprintf("registry histories of <=%d registrations over %d name shapes x every listed name x 7 variants + 5 fixed strings", maxHist, len(shapes))}, func(c *Chooser) {
		serial := fmt.Sprint(atomic.AddInt64(&c19Serial, 1), "x", x.Shard)
		// in half of the executions the application registers hand-built, partially filled decorations
		rawDecors := c.Bool()
		var hist []string
		var histKinds []string
		registered := map[string]decoration.Decoration{}
		for len(hist) < maxHist {
			k := c.Choose(len(shapes) + 1)
			if k == 0 {
				break
			}
			sh := shapes[k-1]
			name := sh.f
			if strings.Contains(name, "%s") {
				name = fmt.Sprintf(sh.f, serial)
			}
			d := customFromMask(7 | 1<<(3+len(hist)))
			if rawDecors {
				// a hand-built decoration that was never passed through Populate (only its vertical pieces are set):
				// still a decoration the application registered
				d = rawDecorFromFields([]int{7, 8 + len(hist)%2}) // VHeader + VBodyBorder|VBodyInner
				d.VHeader = fmt.Sprintf("%d", len(hist))
			}
			c.Logf("decoration.RegisterDecorationName(%q, custom)", name)
			decoration.RegisterDecorationName(name, d)
			registered[name] = d
			hist = append(hist, name)
			histKinds = append(histKinds, sh.kind)
			x.Transition(1)
		}
		tags := []string{}
		for _, k := range histKinds {
			tags = appendUnique(tags, "registered:"+k)
		}
		styles := auto.ListStyles()
		c.Logf("auto.ListStyles() -> %d names", len(styles))
		x.Clause("C19.listing")
		if !sort.StringsAreSorted(styles) {
			x.Fail("C19.listing", tags, "ListStyles() is not sorted: %q", styles)
		}
		have := map[string]bool{}
		for _, s := range styles {
			have[s] = true
		}
		for sp := range subPackages {
			if !have[sp] {
				x.Fail("C19.listing", tags, "ListStyles() lacks the rendering sub-package %q: %q", sp, styles)
			}
		}
		for _, n := range decoration.RegisteredDecorationNames() {
			if !have[n] {
				x.Fail("C19.listing", tags, "ListStyles() lacks the registered decoration %q", n)
			}
		}
		for n := range registered {
			if !have[n] {
				x.Fail("C19.listing", append(tags, "application_registered_name_missing"), "ListStyles() lacks the application-registered decoration %q: %q", n, styles)
			}
		}
		for _, b := range []string{"ascii-simple", "none", "utf8-light", "utf8-light-curved", "utf8-heavy", "utf8-double"} {
			if !have[b] {
				x.Fail("C19.listing", tags, "ListStyles() lacks the built-in decoration %q", b)
			}
		}
		// only names of this execution and the stable ones are exercised (other executions' leftovers are equivalent by construction)
		var names []string
		for _, s := range styles {
			if _, mine := registered[s]; mine || subPackages[s] || strings.HasPrefix(s, "utf8-") || s == "none" || s == "ascii-simple" {
				names = append(names, s)
			}
		}
		render := func(style string) (typ, out string, err error, panicked bool) {
			p, val, site := Safe(func() {
				rt := auto.New(style)
				typ = c19TypeName(rt)
				c19Populate(rt)
				out, err = rt.Render()
			})
			if p {
				x.FailSite("C19.no_panic", append(tags, "panic"), site, "auto.New(%q)+Render panicked: %v", style, val)
				return "", "", nil, true
			}
			return
		}
		for _, L := range names {
			x.Transition(1)
			ltags := tags
			if strings.Contains(L, ".") {
				ltags = append(ltags, "registered_name_contains_dot")
			}
			low := strings.ToLower(strings.SplitN(L, ".", 2)[0])
			isSub := subPackages[L]
			collides := !isSub && (subPackages[low] || low == "texttable")
			if collides {
				ltags = append(ltags, "name_collides_with_subpackage")
			}
			// accepted: every listed name renders without error
			typ, out, err, pn := render(L)
			if pn {
				return
			}
			c.Logf("auto.New(%q) -> %s err=%v", L, typ, err)
			x.Clause("C19.accepted")
			if err != nil || out == "" {
				x.Fail("C19.accepted", ltags, "ListStyles() advertises %q but auto.New(%q).Render() gives (%d bytes, error %v)", L, L, len(out), err)
				continue
			}
			// auto.Render agrees with auto.New + Render
			t := tabular.New()
			c19Populate(t)
			if o2, e2 := auto.Render(t, L); o2 != out || (e2 != nil) != (err != nil) {
				x.Fail("C19.accepted", ltags, "auto.Render(t,%q) and auto.New(%q).Render() disagree", L, L)
				continue
			}
			if isSub {
				x.Clause("C19.subpackage")
				wantType := map[string]string{"csv": "*csv.CSVTable", "html": "*html.HTMLTable", "json": "*json.JSONTable", "markdown": "*markdown.MarkdownTable"}[L]
				if _, shadow := registered[L]; !shadow && typ != wantType {
					x.Fail("C19.subpackage", ltags, "auto.New(%q) is a %s, want %s", L, typ, wantType)
				}
				for _, v := range []string{strings.ToUpper(L), strings.Title(L), L + ".x", L + ".x.y", strings.ToUpper(L) + ".Foo"} {
					vt, vo, ve, pn := render(v)
					if pn {
						return
					}
					if vt != typ || vo != out || ve != nil {
						x.Fail("C19.subpackage", append(ltags, "variant:"+v), "auto.New(%q) gives %s/%d bytes/err %v, but %q gives %s/%d bytes (sub-package names are case-insensitive and ignore trailing sections)", v, vt, len(vo), ve, L, typ, len(out))
					}
					x.Nontrivial(fmt.Sprint(histKinds, "sub", L, v))
				}
				continue
			}
			// a decoration name
			x.Clause("C19.alias")
			if !collides {
				if typ != "*texttable.TextTable" {
					x.Fail("C19.alias", ltags, "auto.New(%q) is a %s, want *texttable.TextTable", L, typ)
					continue
				}
				if d, mine := registered[L]; mine && !strings.Contains(L, ".") {
					// the decoration selected is the one registered under exactly this name (dotted names are ambiguous
					// when their first section is registered too: the statement only fixes that both spellings agree)
					ref := texttable.New()
					c19Populate(ref)
					ref.SetDecoration(d)
					if want, _ := ref.Render(); want != out {
						x.Fail("C19.alias", append(ltags, "selects_another_decoration"), "auto.New(%q) renders\n%s\nbut the decoration registered under %q renders\n%s", L, out, L, want)
						continue
					}
				}
				for _, v := range []string{"texttable." + L, "TEXTTABLE." + L, "TextTable." + L} {
					vt, vo, ve, pn := render(v)
					if pn {
						return
					}
					if vt != typ || vo != out || ve != nil {
						x.Fail("C19.alias", append(ltags, "variant:"+v), "auto.New(%q) gives %s/err %v/\n%s\nbut bare %q gives %s/\n%s", v, vt, ve, vo, L, typ, out)
					}
					x.Nontrivial(fmt.Sprint(histKinds, "alias", L, v))
				}
				// ... and they keep selecting the same thing when trailing sections follow (whatever that is: the
				// decoration, or a refusal - the statement only fixes that both spellings agree)
				if !strings.Contains(L, ".") {
					for _, sfx := range []string{".x", ".x.y", ".", ".X"} {
						bt, bo, be, pn := render(L + sfx)
						if pn {
							return
						}
						pt, po, pe, pn := render("texttable." + L + sfx)
						if pn {
							return
						}
						if bt != pt || bo != po || (be != nil) != (pe != nil) {
							x.Fail("C19.alias", append(ltags, "trailing_sections", "variant:"+L+sfx), "auto.New(%q) gives %s/err %v/\n%s\nbut auto.New(%q) gives %s/err %v/\n%s", L+sfx, bt, be, bo, "texttable."+L+sfx, pt, pe, po)
						}
					}
				}
			} else {
				// colliding names: 'texttable.NAME' must select the decoration and render
				vt, vo, ve, pn := render("texttable." + L)
				if pn {
					return
				}
				if vt != "*texttable.TextTable" || ve != nil || vo == "" {
					x.Fail("C19.alias", ltags, "auto.New(%q) gives %s/err %v, want the registered decoration rendered by a *texttable.TextTable", "texttable."+L, vt, ve)
				}
				x.Nontrivial(fmt.Sprint(histKinds, "collide", L))
			}
		}
		// fixed strings
		x.Clause("C19.default_and_unknown")
		_, heavy, herr, pn := render("utf8-heavy")
		if pn {
			return
		}
		for _, v := range []string{"texttable", "TextTable", "TEXTTABLE"} {
			vt, vo, ve, pn := render(v)
			if pn {
				return
			}
			if _, shadow := registered["texttable"]; shadow {
				continue
			}
			if vt != "*texttable.TextTable" || ve != nil || herr != nil || vo != heavy {
				x.Fail("C19.default_and_unknown", tags, "auto.New(%q) gives %s/err %v and differs from the default decoration's output", v, vt, ve)
			}
		}
		for _, v := range []string{"nope-" + serial, "texttable.nope-" + serial, "texttable.", ".", "nope-" + serial + ".csv", "texttable.nope-" + serial + ".utf8-light",
			"texttablex" + serial, "TextTable-nosuch" + serial, "csvx" + serial, "htmlfoo" + serial, "jsonx" + serial, "markdownish" + serial, "nope-" + serial + strings.Repeat("n", 70)} {
			if c19Resolvable(v) {
				continue // some registration (possibly an earlier execution's, the registry cannot be reset) makes it a known name
			}
			_, vo, ve, pn := render(v)
			if pn {
				return
			}
			x.Nontrivial("unknown:" + v)
			if ve == nil || vo != "" {
				x.Fail("C19.default_and_unknown", append(tags, "unknown_name_rendered"), "unknown style %q rendered (%d bytes, err %v); it must fail with an error and no text", v, len(vo), ve)
			}
		}
		// proper prefixes of registered names are not names: lookups are exact
		for n := range registered {
			for _, k := range []int{len(n) - 1, len(n) / 2, 1} {
				if k <= 0 || k >= len(n) {
					continue
				}
				p := n[:k]
				if strings.HasSuffix(p, ".") || c19Resolvable(p) || c19Resolvable("texttable."+p) {
					continue
				}
				for _, v := range []string{p, "texttable." + p} {
					_, vo, ve, pn := render(v)
					if pn {
						return
					}
					x.Nontrivial("prefix:" + v)
					if ve == nil || vo != "" {
						x.Fail("C19.default_and_unknown", append(tags, "unknown_name_rendered", "prefix_of_a_registered_name"), "%q is only a prefix of the registered name %q, yet auto.New(%q) rendered (%d bytes, err %v); an unknown name must fail with an error and no text", v, n, v, len(vo), ve)
					}
				}
			}
		}
		// decoration names are exact: a case variant of a listed name that is not itself listed is an unknown name
		var variants []string
		for _, n := range []string{"utf8-light", "utf8-heavy", "none", "ascii-simple"} {
			variants = append(variants, strings.ToUpper(n), strings.Title(n), "texttable."+strings.ToUpper(n), "TextTable."+strings.Title(n))
		}
		for n := range registered {
			if !strings.Contains(n, ".") && n != "" {
				variants = append(variants, strings.ToUpper(n), strings.ToLower(n))
			}
		}
		for _, v := range variants {
			if c19Resolvable(v) {
				continue
			}
			_, vo, ve, pn := render(v)
			if pn {
				return
			}
			x.Nontrivial("case-variant:" + v)
			if ve == nil || vo != "" {
				x.Fail("C19.default_and_unknown", append(tags, "unknown_name_rendered", "case_variant_of_a_decoration_name"), "%q is not a listed name (decoration names are matched exactly; only its case variant is listed), yet auto.New(%q) rendered (%d bytes, err %v)", v, v, len(vo), ve)
			}
		}
		for _, v := range []string{"utf8", "utf8-", "utf8-heav", "ascii", "non"} {
			if c19Resolvable(v) {
				continue
			}
			_, vo, ve, pn := render(v)
			if pn {
				return
			}
			if ve == nil || vo != "" {
				x.Fail("C19.default_and_unknown", append(tags, "unknown_name_rendered", "prefix_of_a_builtin_name"), "%q is only a prefix of built-in decoration names, yet auto.New(%q) rendered (%d bytes, err %v)", v, v, len(vo), ve)
			}
		}
		// the style string decides, not what the table given to Wrap happens to be: wrapping an already decorated
		// (or failed) text table with a plain style must give that style's output
		x.Clause("C19.style_decides_not_the_wrapped_table")
		_, light, _, pn2 := render("utf8-light")
		if pn2 {
			return
		}
		inners := []struct {
			name string
			mk   func() tabular.Table
		}{
			{"auto.New(ascii-simple)", func() tabular.Table { return auto.New("ascii-simple") }},
			{"auto.New(unknown style)", func() tabular.Table { return auto.New("nope-" + serial) }},
			{"texttable.New()+SetDecoration(custom)", func() tabular.Table { tt := texttable.New(); tt.SetDecoration(customDecoration()); return tt }},
			{"auto.New(csv)", func() tabular.Table { return auto.New("csv") }},
		}
		for _, in := range inners {
			for _, st := range []struct{ style, want string }{{"texttable", heavy}, {"TextTable", heavy}, {"utf8-light", light}, {"texttable.utf8-light", light}} {
				t := in.mk()
				c19Populate(t)
				var out string
				var err error
				if p, val, site := Safe(func() { out, err = auto.Wrap(t, st.style).Render() }); p {
					x.FailSite("C19.no_panic", append(tags, "panic"), site, "auto.Wrap(%s, %q).Render panicked: %v", in.name, st.style, val)
					return
				}
				x.Nontrivial("wrap:" + in.name + st.style)
				if err != nil || out != st.want {
					x.Fail("C19.style_decides_not_the_wrapped_table", append(tags, "wrapping_an_existing_renderer"), "auto.Wrap(%s, %q).Render() gives (err %v)\n%s\nwant what the style %q gives on a core table:\n%s", in.name, st.style, err, out, st.style, st.want)
				}
				t2 := in.mk()
				c19Populate(t2)
				if o2, e2 := auto.Render(t2, st.style); e2 != nil || o2 != st.want {
					x.Fail("C19.style_decides_not_the_wrapped_table", append(tags, "wrapping_an_existing_renderer"), "auto.Render(%s, %q) gives (err %v)\n%s\nwant\n%s", in.name, st.style, e2, o2, st.want)
				}
			}
		}
		x.State(fmt.Sprint(histKinds))
		x.Outcome(fmt.Sprint(histKinds, len(names)))
	})
}

// c19Resolvable: could the style string name a registered decoration under any documented reading
// (first section, everything after 'texttable.', or the whole string)?  Computed from the registry's
// current content, which may include names left by earlier executions of this process.
func c19Resolvable(style string) bool {
	// "known" means: listed under exactly this name (not: whatever a lookup happens to return)
	listed := map[string]bool{}
	for _, n := range decoration.RegisteredDecorationNames() {
		listed[n] = true
	}
	known := func(n string) bool { return listed[n] }
	sections := strings.Split(style, ".")
	first := strings.ToLower(sections[0])
	if subPackages[first] {
		return true
	}
	if first == "texttable" {
		if len(sections) == 1 {
			return true
		}
		return known(sections[1]) || known(strings.SplitN(style, ".", 2)[1]) || known(style)
	}
	return known(sections[0]) || known(style)
}
