package main

// C14, family "rendered-through-an-outer-wrapper": a long-lived wrapper W (its own decoration / caption / settings)
// is itself handed, as the table, to other renderers: wrapped again with other settings, passed to a package-level
// Render or to auto with another style (also an unknown one).  None of that may change what W renders.

import (
	"fmt"

	"go.pennock.tech/tabular"
	"go.pennock.tech/tabular/auto"
	"go.pennock.tech/tabular/csv"
	thtml "go.pennock.tech/tabular/html"
	tjson "go.pennock.tech/tabular/json"
	"go.pennock.tech/tabular/markdown"
	"go.pennock.tech/tabular/texttable"
	"go.pennock.tech/tabular/texttable/decoration"
)

func runC14OuterWrapper(x *X) {
	type inner struct {
		name string
		mk   func(t tabular.Table) tabular.Table
	}
	inners := []inner{
		{"texttable.Wrap + ascii-simple", func(t tabular.Table) tabular.Table {
			w := texttable.Wrap(t)
			if _, err := w.SetDecorationNamed("ascii-simple"); err != nil {
				panic("harness: " + err.Error())
			}
			return w
		}},
		{"texttable.Wrap (default decoration)", func(t tabular.Table) tabular.Table { return texttable.Wrap(t) }},
		{"markdown.Wrap", func(t tabular.Table) tabular.Table { return markdown.Wrap(t) }},
		{"html.Wrap + caption/id/class", func(t tabular.Table) tabular.Table {
			w := thtml.Wrap(t)
			w.Caption, w.Id, w.Class = "inner caption", "inner-id", "inner-class"
			return w
		}},
		{"csv.Wrap", func(t tabular.Table) tabular.Table { return csv.Wrap(t) }},
		{"json.Wrap", func(t tabular.Table) tabular.Table { return tjson.Wrap(t) }},
		{"auto.Wrap(utf8-double)", func(t tabular.Table) tabular.Table { return auto.Wrap(t, "utf8-double").(tabular.Table) }},
	}
	type outer struct {
		name string
		do   func(w tabular.Table)
	}
	outers := []outer{
		{"texttable.Wrap(W).SetDecorationNamed(utf8-light).Render()", func(w tabular.Table) {
			o := texttable.Wrap(w)
			o.SetDecorationNamed("utf8-light")
			o.Render()
		}},
		{"texttable.Wrap(W).SetDecoration(EmptyDecoration).Render()", func(w tabular.Table) {
			o := texttable.Wrap(w)
			o.SetDecoration(decoration.EmptyDecoration)
			o.Render()
		}},
		{"texttable.Wrap(W).SetDecorationNamed(no-such-name)", func(w tabular.Table) {
			o := texttable.Wrap(w)
			o.SetDecorationNamed("no-such-name")
			o.Render()
		}},
		{"texttable.Render(W)", func(w tabular.Table) { texttable.Render(w) }},
		{"auto.Render(W, none)", func(w tabular.Table) { auto.Render(w, "none") }},
		{"auto.Render(W, no-such-style)", func(w tabular.Table) { auto.Render(w, "no-such-style") }},
		{"auto.Wrap(W, markdown).Render()", func(w tabular.Table) { auto.Wrap(w, "markdown").Render() }},
		{"markdown.Wrap(W).Render()", func(w tabular.Table) { markdown.Wrap(w).Render() }},
		{"html.Wrap(W) with another caption/id, rendered", func(w tabular.Table) {
			o := thtml.Wrap(w)
			o.Caption, o.Id, o.Class = "outer caption", "outer-id", ""
			o.Render()
		}},
		{"csv.Wrap(W).Render() + json.Wrap(W).Render()", func(w tabular.Table) { csv.Wrap(w).Render(); tjson.Wrap(w).Render() }},
	}
	depth := x.Pick(2, 3)
	x.Explore("rendered-through-an-outer-wrapper", ExploreOpts{ShardDepth: 2, Bound: fmt.Sprintf("%d long-lived inner wrappers W (rendered first or not) x all sequences of <=%d of %d uses of W as the table of another renderer (re-wrapped with other settings, package-level, auto with other/unknown styles); W.Render() afterwards compared with a fresh identical W", len(inners), depth, len(outers))}, func(c *Chooser) {
		in := inners[c.Choose(len(inners))]
		renderFirst := c.Bool()
		build := func() tabular.Table {
			t := tabular.New()
			t.AddHeaders("name", "value")
			t.AddRowItems("alpha", "1")
			t.AddSeparator()
			t.AddRowItems("beta\ngamma", "<2>")
			return in.mk(t)
		}
		w := build()
		wr := w.(lifeRenderer)
		want, wantErr := build().(lifeRenderer).Render()
		c.Logf("W := %s around a 2x2 table with a separator; rendered before the outer uses: %v", in.name, renderFirst)
		tags := []string{"wrapper_used_as_the_table_of_another_renderer", "inner:" + in.name}
		if renderFirst {
			wr.Render()
		}
		var ops []string
		for step := 0; step < depth; step++ {
			k := c.Choose(len(outers) + 1)
			if k == 0 {
				break
			}
			o := outers[k-1]
			c.Logf("%s", o.name)
			ops = append(ops, o.name)
			x.Transition(1)
			if p, val, site := Safe(func() { o.do(w) }); p {
				x.FailSite("C14.no_panic", append(tags, "panic"), site, "%s panicked: %v", o.name, val)
				return
			}
			var got string
			var err error
			if p, val, site := Safe(func() { got, err = wr.Render() }); p {
				x.FailSite("C14.no_panic", append(tags, "panic"), site, "W.Render() after %v panicked: %v", ops, val)
				return
			}
			x.Clause("C14.same_bytes_as_first_render")
			if got != want || (err != nil) != (wantErr != nil) {
				x.Fail("C14.same_bytes_as_first_render", tags, "W = %s; after %v W.Render() gives (err %v)\n%s\nbut a fresh identical W gives (err %v)\n%s", in.name, ops, err, got, wantErr, want)
				return
			}
		}
		x.State(fmt.Sprint(in.name, renderFirst, ops))
		if len(ops) > 0 {
			x.Nontrivial(fmt.Sprint(in.name, renderFirst, ops))
		}
	})
}
