package main

// C09, family "incomplete-decorations": a Decoration is a public struct and anything can be registered
// under a name; a registered decoration with only some of its fields set (never passed through Populate)
// is still a registered decoration.  Rendering under it must not panic, whatever the table.

import (
	"fmt"
	"reflect"
	"strings"

	"go.pennock.tech/tabular/properties/align"

	"go.pennock.tech/tabular"
	"go.pennock.tech/tabular/texttable"
	"go.pennock.tech/tabular/texttable/decoration"
)

func rawDecorFromFields(fields []int) decoration.Decoration {
	var d decoration.Decoration
	v := reflect.ValueOf(&d).Elem()
	for _, i := range fields {
		v.FieldByName(decorFields[i]).SetString(decorGlyph(i))
	}
	return d
}

func init() {
	c09ExtraFamilies = append(c09ExtraFamilies, func(x *X) {
		type shape struct {
			name  string
			build func(t tabular.Table)
		}
		shapes := []shape{
			{"no rows, no header", func(t tabular.Table) {}},
			{"one zero-cell row (zero columns)", func(t tabular.Table) { t.AppendNewRow() }},
			{"empty header (zero columns)", func(t tabular.Table) { t.AddHeaders() }},
			{"empty header + zero-cell row", func(t tabular.Table) { t.AddHeaders(); t.AppendNewRow() }},
			{"separator only", func(t tabular.Table) { t.AddSeparator() }},
			{"one cell", func(t tabular.Table) { t.AddRowItems("a") }},
			{"header(2) + ragged rows + separator + multi-line", func(t tabular.Table) {
				t.AddHeaders("h1", "h2")
				t.AddRowItems("a")
				t.AddSeparator()
				t.AddRowItems("b\nc", "d", "e")
				t.AppendNewRow()
			}},
		}
		nf := len(decorFields)
		x.Explore("incomplete-decorations", ExploreOpts{ShardDepth: 2, Bound: fmt.Sprintf("%d table shapes (zero columns, empty header, separators only, ragged) x every decoration with <=2 of its %d fields set (thorough <=3) and NOT completed by Populate x {SetDecoration, registered under a name + SetDecorationNamed}", len(shapes), nf)}, func(c *Chooser) {
			sh := shapes[c.Choose(len(shapes))]
			var fields []int
			max := x.Pick(2, 3)
			last := -1
			for len(fields) < max {
				k := c.Choose(nf - last) // 0 = stop, else next field index last+k
				if k == 0 {
					break
				}
				last += k
				fields = append(fields, last)
			}
			byName := c.Bool()
			d := rawDecorFromFields(fields)
			var fn []string
			for _, i := range fields {
				fn = append(fn, decorFields[i])
			}
			c.Logf("table: %s; decoration.Decoration with only %v set (no Populate); byName=%v", sh.name, fn, byName)
			t := tabular.New()
			sh.build(t)
			tt := texttable.Wrap(t)
			tags := []string{"incomplete_decoration", "target:text", "shape:" + sh.name}
			for _, f := range fn {
				tags = append(tags, "field:"+f)
			}
			if byName {
				name := "c09-incomplete"
				decoration.RegisterDecorationName(name, d)
				if _, err := tt.SetDecorationNamed(name); err != nil && len(fields) > 0 {
					// an all-empty decoration is the "unknown" marker; anything else was registered and must be found
					x.Fail("C09.no_panic", append(tags, "registered_name_not_found"), "decoration registered under %q with fields %v is refused: %v", name, fn, err)
					return
				}
			} else {
				tt.SetDecoration(d)
			}
			x.Transition(1)
			var out string
			var err error
			x.Clause("C09.no_panic")
			if p, val, site := Safe(func() { out, err = tt.Render() }); p {
				x.FailSite("C09.no_panic", tags, site, "Render under a decoration with only %v set panicked on table [%s]: %v (in %s)", fn, sh.name, val, site)
				return
			}
			x.Clause("C09.error_means_no_text")
			if err != nil && out != "" {
				x.Fail("C09.error_means_no_text", tags, "Render returned error %q together with %d bytes of text", err, len(out))
				return
			}
			x.State(fmt.Sprint(sh.name, fn))
			x.Nontrivial(fmt.Sprint(sh.name, fn, byName))
			if err != nil {
				x.Outcome("error")
			} else {
				x.Outcome("ok")
			}
		})
	})
}

// family "render-order": the renderers applied to ONE table in every order and with repetitions (what a render
// leaves on the table - measuring callbacks, properties on cells - is input for the next renderer).
func init() {
	c09ExtraFamilies = append(c09ExtraFamilies, func(x *X) {
		tables := []struct {
			name  string
			build func(t tabular.Table)
		}{
			{"header(2) + ragged rows + separator + multi-line + nil item", func(t tabular.Table) {
				t.AddHeaders("h1", "h2")
				t.AddRowItems("a", nil)
				t.AddSeparator()
				t.AddRowItems("b\nc", "d", "e")
				t.AppendNewRow()
			}},
			{"no header, one cell", func(t tabular.Table) { t.AddRowItems("x") }},
			{"header only", func(t tabular.Table) { t.AddHeaders("h") }},
		}
		targets := allTargets()
		var rs []Target
		seen := map[string]bool{}
		for _, tg := range targets {
			// one entry point per format/decoration is enough here: what matters is the ORDER of formats
			if tg.Via == "method" && !seen[tg.Name] {
				seen[tg.Name] = true
				rs = append(rs, tg)
			}
		}
		if len(rs) > 9 {
			rs = rs[:9]
		}
		depth := x.Pick(4, 5)
		x.Explore("render-order", ExploreOpts{ShardDepth: 2, Bound: fmt.Sprintf("%d tables x all sequences of <=%d renders over %d wrapper-method targets (fresh wrapper each time, same table)", len(tables), depth, len(rs))}, func(c *Chooser) {
			tb := tables[c.Choose(len(tables))]
			t := tabular.New()
			tb.build(t)
			var ops []string
			for step := 0; step < depth; step++ {
				k := c.Choose(len(rs) + 1)
				if k == 0 {
					break
				}
				tg := rs[k-1]
				ops = append(ops, tg.Name)
				c.Logf("%s", tg.Name)
				x.Transition(1)
				r := renderBoth(tg, t)
				tags := []string{"render_order", "target:" + tg.Format}
				if step > 0 {
					tags = append(tags, "after_other_renderers")
				}
				x.Clause("C09.no_panic")
				if r.Panicked || r.ToPanicked {
					site, val := r.Site, r.PanicVal
					if !r.Panicked {
						site, val = r.ToSite, r.ToPanicVal
					}
					x.FailSite("C09.no_panic", tags, site, "%s panicked: %v (in %s) on table [%s] after rendering it with %v", tg.Name, val, site, tb.name, ops[:len(ops)-1])
					return
				}
				x.Clause("C09.error_means_no_text")
				if r.Err != nil && r.Out != "" {
					x.Fail("C09.error_means_no_text", tags, "%s returned error %q together with text after %v", tg.Name, r.Err, ops)
					return
				}
			}
			x.State(fmt.Sprint(tb.name, ops))
			if len(ops) > 1 {
				x.Nontrivial(fmt.Sprint(tb.name, ops))
			}
		})
	})
}

// family "row-in-two-tables": nothing stops a *Row from being added to two tables; the row then tracks only the
// table it joined last, so after Row.Add the OTHER table holds a row with more cells than it has columns.
// Every renderer must cope (csv and markdown report a structural error; none may panic).
func init() {
	c09ExtraFamilies = append(c09ExtraFamilies, func(x *X) {
		targets := allTargets()
		x.Explore("row-in-two-tables", ExploreOpts{ShardDepth: 2, Bound: fmt.Sprintf("tables A (header of 0..2 cells or none) and B (header of 0..3 cells or none); one row of 0..2 cells added to both (either order), then extended by 0..3 cells, optionally a second ordinary row in A; both tables rendered by all %d targets", len(targets))}, func(c *Chooser) {
			ha, hb := c.Choose(4)-1, c.Choose(5)-1
			n0 := c.Choose(3)
			aFirst := c.Bool()
			ext := c.Choose(4)
			second := c.Bool()
			a, b := tabular.New(), tabular.New()
			hdr := func(t tabular.Table, n int) {
				if n < 0 {
					return
				}
				items := make([]interface{}, n)
				for i := range items {
					items[i] = fmt.Sprintf("h%d", i)
				}
				t.AddHeaders(items...)
			}
			hdr(a, ha)
			hdr(b, hb)
			r := tabular.NewRow()
			for i := 0; i < n0; i++ {
				r.Add(tabular.NewCell(fmt.Sprintf("c%d", i)))
			}
			if aFirst {
				a.AddRow(r)
				b.AddRow(r)
			} else {
				b.AddRow(r)
				a.AddRow(r)
			}
			for i := 0; i < ext; i++ {
				r.Add(tabular.NewCell(fmt.Sprintf("x%d\nline2", i)))
			}
			if second {
				a.AddRowItems("p", "q")
			}
			desc := fmt.Sprintf("A: header %d; B: header %d; row of %d cells added to %s, then %d cells added to it; second row in A: %v", ha, hb, n0, map[bool]string{true: "A then B", false: "B then A"}[aFirst], ext, second)
			c.Logf("%s  (A has %d columns, B has %d, the row has %d cells)", desc, a.NColumns(), b.NColumns(), n0+ext)
			x.Transition(3)
			x.State(desc)
			x.Nontrivial(desc)
			for ti, t := range []tabular.Table{a, b} {
				for _, tg := range targets {
					r := renderBoth(tg, t)
					tags := []string{"row_in_two_tables", "target:" + tg.Format, "via:" + tg.Via}
					if n0+ext > t.NColumns() {
						tags = append(tags, "row_wider_than_the_table")
					}
					x.Clause("C09.no_panic")
					if r.Panicked || r.ToPanicked {
						site, val := r.Site, r.PanicVal
						if !r.Panicked {
							site, val = r.ToSite, r.ToPanicVal
						}
						x.FailSite("C09.no_panic", tags, site, "%s of table %c panicked: %v (in %s); %s", tg.Name, "AB"[ti], val, site, desc)
						return
					}
					x.Clause("C09.error_means_no_text")
					if r.Err != nil && r.Out != "" {
						x.Fail("C09.error_means_no_text", tags, "%s of table %c returned error %q together with text; %s", tg.Name, "AB"[ti], r.Err, desc)
						return
					}
				}
			}
		})
	})
}

// family "alignment-x-sizes": every pool item (declared sizes that disagree with the text, multi-line, empty, nil)
// alone in a column or under a wider/narrower neighbour, with every alignment on the column or as the default.
func init() {
	c09ExtraFamilies = append(c09ExtraFamilies, func(x *X) {
		targets := allTargets()
		var texts []Target
		for _, tg := range targets {
			if strings.HasPrefix(tg.Format, "text") || tg.Format == "markdown" {
				texts = append(texts, tg)
			}
		}
		aligns := []interface{}{align.Center, align.Right, align.Left}
		x.Explore("alignment-x-sizes", ExploreOpts{ShardDepth: 2, Bound: fmt.Sprintf("%d pool items x {alone, under a 1-cell header, under a 12-cell header, next to a second column} x {centre, right, left} x {on the column, as column-0 default} x %d text/markdown targets", len(itemPool), len(texts))}, func(c *Chooser) {
			it := itemPool[c.Choose(len(itemPool))]
			shape := c.Choose(4)
			al := aligns[c.Choose(len(aligns))]
			onCol0 := c.Bool()
			t := tabular.New()
			switch shape {
			case 1:
				t.AddHeaders("h")
			case 2:
				t.AddHeaders("a-wide-header")
			}
			if shape == 3 {
				t.AddRowItems(it.Make(), "second column")
			} else {
				t.AddRowItems(it.Make())
			}
			if onCol0 {
				t.Column(0).SetProperty(align.PropertyType, al)
			} else {
				t.Column(1).SetProperty(align.PropertyType, al)
			}
			desc := fmt.Sprintf("item %s, shape %d, alignment %v on column %d", it.Name, shape, al, map[bool]int{true: 0, false: 1}[onCol0])
			c.Logf("%s", desc)
			x.Transition(1)
			x.State(desc)
			x.Nontrivial(desc)
			for _, tg := range texts {
				r := renderBoth(tg, t)
				tags := append([]string{"alignment_x_sizes", "target:" + tg.Format, fmt.Sprintf("alignment:%v", al)}, it.Tags...)
				x.Clause("C09.no_panic")
				if r.Panicked || r.ToPanicked {
					site, val := r.Site, r.PanicVal
					if !r.Panicked {
						site, val = r.ToSite, r.ToPanicVal
					}
					x.FailSite("C09.no_panic", tags, site, "%s panicked: %v (in %s); %s", tg.Name, val, site, desc)
					return
				}
				x.Clause("C09.error_means_no_text")
				if r.Err != nil && r.Out != "" {
					x.Fail("C09.error_means_no_text", tags, "%s returned error %q together with text; %s", tg.Name, r.Err, desc)
					return
				}
			}
		})
	})
}
