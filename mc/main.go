package main

import (
	"bytes"
	"encoding/json"
	"flag"
	"fmt"
	"os"
	"os/exec"
	"path/filepath"
	"sort"
	"strconv"
	"strings"
	"sync"
	"time"
)

const verifRoot = "/verif"

// outRoot is where evidence, replay files and scratch directories go: /verif, unless an experiment (seed evaluation
// against a scratch copy of the repository, see run.sh) redirects them so that it cannot disturb the registered checks.
func outRoot() string {
	if d := os.Getenv("VERIF_ALT_OUT"); d != "" {
		return d
	}
	return verifRoot
}

type Check struct {
	ID          string
	Level       string // evidence level: model_checking | exploration | fault_enumeration
	Rule        string
	Technique   string
	Assumptions []string
	Shards      int
	// wall-clock budget per tier for each worker; when reached the enumeration
	// stops between executions and the run is reported as not exhaustive (exit 0).
	QuickBudget    time.Duration
	ThoroughBudget time.Duration
	Env            []string // extra environment for workers
	Overlay        bool     // workers run in the overlay-instrumented scheduler build of the harness
	Run            func(x *X)
	// Extra is run by the parent after the workers (e.g. the free-running -race pass);
	// it may add keys to coverage and return violations.
	Extra func(tier string, cov map[string]interface{}) []Violation
}

var checks = map[string]*Check{}

func register(c *Check) { checks[c.ID] = c }

func main() {
	if len(os.Args) < 2 {
		usage()
	}
	switch os.Args[1] {
	case "check":
		os.Exit(cmdCheck(os.Args[2:]))
	case "worker":
		os.Exit(cmdWorker(os.Args[2:]))
	case "replay":
		os.Exit(cmdReplay(os.Args[2:]))
	case "describe":
		if ck := checks[os.Args[2]]; ck != nil {
			b, _ := json.Marshal(map[string]interface{}{"Rule": ck.Rule, "Technique": ck.Technique, "Assumptions": ck.Assumptions})
			os.Stdout.Write(b)
		}
	case "list":
		ids := []string{}
		for id := range checks {
			ids = append(ids, id)
		}
		sort.Strings(ids)
		for _, id := range ids {
			fmt.Println(id, checks[id].Level, "-", checks[id].Technique)
		}
	default:
		if !extraCommand(os.Args[1], os.Args[2:]) {
			usage()
		}
	}
}

func usage() {
	fmt.Fprintln(os.Stderr, "usage: mc check <ID> [--tier quick|thorough] | mc replay <file> | mc list")
	os.Exit(2)
}

func workerEnv(extra []string) []string {
	env := []string{}
	for _, e := range os.Environ() {
		if strings.HasPrefix(e, "RUNEWIDTH_EASTASIAN=") || strings.HasPrefix(e, "LC_ALL=") || strings.HasPrefix(e, "LANG=") ||
			strings.HasPrefix(e, "LC_CTYPE=") || strings.HasPrefix(e, "GOMAXPROCS=") {
			continue
		}
		env = append(env, e)
	}
	env = append(env, "RUNEWIDTH_EASTASIAN=0", "LC_ALL=C", "LANG=C", "GOMAXPROCS=1")
	env = append(env, extra...)
	return env
}

func cmdWorker(args []string) int {
	fs := flag.NewFlagSet("worker", flag.ExitOnError)
	tier := fs.String("tier", "quick", "")
	shard := fs.Int("shard", 0, "")
	nshards := fs.Int("nshards", 1, "")
	out := fs.String("out", "", "")
	budget := fs.Duration("budget", 0, "")
	id := args[0]
	fs.Parse(args[1:])
	ck := checks[id]
	if ck == nil {
		fmt.Fprintln(os.Stderr, "harness: unknown check", id)
		return 2
	}
	x := newX(id, *tier, *shard, *nshards)
	x.known = loadKnown(filepath.Join(verifRoot, "known_findings.json"))
	x.outDir = filepath.Join(outRoot(), ".out", id)
	if *budget > 0 {
		x.deadline = time.Now().Add(*budget)
	}
	start := time.Now()
	func() {
		defer func() {
			if r := recover(); r != nil {
				if _, ok := r.(stopAll); ok {
					return
				}
				panic(r)
			}
		}()
		ck.Run(x)
	}()
	res := x.result(time.Since(start).Seconds())
	b, _ := json.Marshal(res)
	if *out == "" {
		os.Stdout.Write(b)
	} else if err := os.WriteFile(*out, b, 0o644); err != nil {
		fmt.Fprintln(os.Stderr, "harness: write result:", err)
		return 2
	}
	return 0
}

func cmdCheck(args []string) int {
	if len(args) < 1 {
		usage()
	}
	id := args[0]
	fs := flag.NewFlagSet("check", flag.ExitOnError)
	tier := fs.String("tier", "", "")
	shards := fs.Int("shards", 0, "")
	fs.Parse(args[1:])
	if *tier == "" {
		*tier = os.Getenv("VERIF_TIER")
	}
	if *tier != "thorough" {
		*tier = "quick"
	}
	ck := checks[id]
	if ck == nil {
		fmt.Fprintln(os.Stderr, "harness: unknown check", id)
		return 2
	}
	seed, _ := strconv.ParseInt(os.Getenv("VERIF_SEED"), 10, 64)
	n := ck.Shards
	if n == 0 {
		n = 16
	}
	if *shards > 0 {
		n = *shards
	}
	budget := ck.QuickBudget
	if *tier == "thorough" {
		budget = ck.ThoroughBudget
	}
	// experiments only (smoke-testing a tier's deeper bounds): cap the wall-clock budget; the registered commands never set it
	if v := os.Getenv("VERIF_BUDGET_S"); v != "" {
		var secs int
		if _, err := fmt.Sscan(v, &secs); err == nil && secs > 0 && time.Duration(secs)*time.Second < budget {
			budget = time.Duration(secs) * time.Second
		}
	}
	start := time.Now()
	work := filepath.Join(outRoot(), ".work", fmt.Sprintf("%s-%d", id, os.Getpid()))
	os.MkdirAll(work, 0o755)
	defer os.RemoveAll(work)
	outDir := filepath.Join(outRoot(), ".out", id)
	os.RemoveAll(outDir)
	os.MkdirAll(outDir, 0o755)
	exe, _ := os.Executable()
	var ovInfo *OverlayInfo
	if ck.Overlay {
		var err error
		exe, ovInfo, err = buildOverlayBinary(work, false)
		if err != nil {
			fmt.Fprintln(os.Stderr, err)
			return 2
		}
		// the overlay build carries the real metadata (rule, technique, assumptions) of the check
		if out, err := exec.Command(exe, "describe", id).Output(); err == nil {
			var d struct {
				Rule, Technique string
				Assumptions     []string
			}
			if json.Unmarshal(out, &d) == nil {
				ck.Rule, ck.Technique, ck.Assumptions = d.Rule, d.Technique, d.Assumptions
			}
		}
	}

	results := make([]*WorkerResult, n)
	crashes := make([]string, n)
	harnessErr := make([]string, n)
	var wg sync.WaitGroup
	sem := make(chan struct{}, 16)
	for i := 0; i < n; i++ {
		wg.Add(1)
		go func(i int) {
			defer wg.Done()
			sem <- struct{}{}
			defer func() { <-sem }()
			out := filepath.Join(work, fmt.Sprintf("res-%d.json", i))
			a := []string{"worker", id, "--tier", *tier, "--shard", strconv.Itoa(i), "--nshards", strconv.Itoa(n), "--out", out}
			if budget > 0 {
				a = append(a, "--budget", budget.String())
			}
			cmd := exec.Command(exe, a...)
			cmd.Env = workerEnv(ck.Env)
			var stderr bytes.Buffer
			cmd.Stderr = &stderr
			cmd.Stdout = &stderr
			err := cmd.Run()
			if err != nil {
				s := stderr.String()
				if strings.Contains(s, "harness:") {
					harnessErr[i] = s
				} else {
					crashes[i] = fmt.Sprintf("worker %d/%d: %v\n%s", i, n, err, s)
				}
				return
			}
			b, err := os.ReadFile(out)
			if err != nil {
				harnessErr[i] = "harness: no result from worker: " + err.Error() + "\n" + stderr.String()
				return
			}
			var r WorkerResult
			if err := json.Unmarshal(b, &r); err != nil {
				harnessErr[i] = "harness: bad result: " + err.Error()
				return
			}
			results[i] = &r
		}(i)
	}
	wg.Wait()
	for _, h := range harnessErr {
		if h != "" {
			fmt.Fprintln(os.Stderr, h)
			return 2
		}
	}

	// merge
	var evals, trans int64
	states, outcomes, nontriv := map[uint64]struct{}{}, map[uint64]struct{}{}, map[uint64]struct{}{}
	clauses, notes, knownHits := map[string]int64{}, map[string]int64{}, map[string]int64{}
	families := map[string]*FamilyStat{}
	var samples []interface{}
	var violations []Violation
	exhaustive := true
	var caps []string
	for i, r := range results {
		if r == nil {
			// process died without a harness error: a fatal runtime error in the code under test
			f := filepath.Join(outDir, fmt.Sprintf("%s-fatal-s%d.replay.json", id, i))
			v := Violation{Property: id, Family: "fatal", Tier: *tier, Clause: id + ".fatal_runtime_error", Detail: crashes[i], File: f}
			b, _ := json.MarshalIndent(v, "", " ")
			os.WriteFile(f, b, 0o644)
			violations = append(violations, v)
			exhaustive = false
			continue
		}
		evals += r.Evaluations
		trans += r.Transitions
		for _, k := range r.States {
			states[k] = struct{}{}
		}
		for _, k := range r.Outcomes {
			outcomes[k] = struct{}{}
		}
		for _, k := range r.Nontrivial {
			nontriv[k] = struct{}{}
		}
		for k, v := range r.Clauses {
			clauses[k] += v
		}
		for k, v := range r.Notes {
			notes[k] += v
		}
		for k, v := range r.KnownHits {
			knownHits[k] += v
		}
		for name, f := range r.Families {
			m := families[name]
			if m == nil {
				m = &FamilyStat{Exhaustive: true, Bound: f.Bound}
				families[name] = m
			}
			m.Runs += f.Runs
			if f.MaxDepth > m.MaxDepth {
				m.MaxDepth = f.MaxDepth
			}
			if !f.Exhaustive {
				m.Exhaustive = false
				m.Cap = f.Cap
			}
		}
		if len(samples) < 12 {
			for _, s := range r.Samples {
				if len(samples) < 12 {
					samples = append(samples, s)
				}
			}
		}
		violations = append(violations, r.Violations...)
	}
	for name, f := range families {
		if !f.Exhaustive {
			exhaustive = false
			caps = append(caps, name+": "+f.Cap)
		}
	}
	sort.Strings(caps)

	cov := map[string]interface{}{}
	if ovInfo != nil {
		cov["instrumentation"] = map[string]interface{}{"files_rewritten": ovInfo.Files, "sync_imports_rewritten": ovInfo.SyncRewrites, "access_hooks_inserted": ovInfo.Hooks,
			"package_level_vars": ovInfo.Vars, "mutable_package_level_vars": ovInfo.Mutable, "registry_reset_helper": ovInfo.ResetHelper}
	}
	if ck.Extra != nil && len(violations) == 0 {
		violations = append(violations, ck.Extra(*tier, cov)...)
	}

	known := loadKnown(filepath.Join(verifRoot, "known_findings.json"))
	var knownLines []string
	for _, k := range known {
		if k.Property == id && k.Status == "known" && knownHits[k.ID] > 0 {
			line := fmt.Sprintf("KNOWN-FINDING: property=%s %s [%s, %d occurrences in this run]", id, k.What, k.ID, knownHits[k.ID])
			knownLines = append(knownLines, line)
			fmt.Println(line)
		}
	}

	nstates := len(states)
	if nstates == 0 {
		nstates = len(outcomes)
	}
	cov["evaluations"] = evals
	cov["distinct_nontrivial"] = len(nontriv)
	cov["rule"] = ck.Rule
	if len(samples) == 0 {
		samples = append(samples, "no execution completed")
	}
	cov["samples"] = samples
	cov["states"] = nstates
	cov["transitions"] = trans
	cov["traces_validated_against_impl"] = evals
	cov["distinct_outcomes"] = len(outcomes)
	cov["exhaustive"] = exhaustive
	cov["families"] = families
	cov["clause_evaluations"] = clauses
	cov["notes"] = notes
	cov["caps_hit"] = caps
	cov["known_findings_matched"] = knownLines
	cov["workers"] = n
	cov["explanation"] = "every execution is a run of the real implementation in /repo (rebuilt from the working tree); states = distinct canonical observable states hashed, transitions = operations/choice points executed"
	ev := map[string]interface{}{
		"property_id": id, "tier": *tier, "seed": seed, "level": ck.Level, "coverage": cov,
		"assumptions": ck.Assumptions, "wall_s": time.Since(start).Seconds(), "violations": len(violations),
		"technique": ck.Technique,
	}
	os.MkdirAll(filepath.Join(outRoot(), "evidence"), 0o755)
	b, _ := json.MarshalIndent(ev, "", " ")
	if err := os.WriteFile(filepath.Join(outRoot(), "evidence", id+".json"), b, 0o644); err != nil {
		fmt.Fprintln(os.Stderr, "harness: cannot write evidence:", err)
		return 2
	}

	fmt.Printf("%s tier=%s executions=%d transitions=%d states=%d outcomes=%d nontrivial=%d exhaustive=%v wall=%.1fs\n",
		id, *tier, evals, trans, nstates, len(outcomes), len(nontriv), exhaustive, time.Since(start).Seconds())
	names := []string{}
	for name := range families {
		names = append(names, name)
	}
	sort.Strings(names)
	for _, name := range names {
		f := families[name]
		fmt.Printf("  family %-28s runs=%-9d maxdepth=%-3d exhaustive=%v %s %s\n", name, f.Runs, f.MaxDepth, f.Exhaustive, f.Bound, f.Cap)
	}
	cl := []string{}
	for k := range clauses {
		cl = append(cl, k)
	}
	sort.Strings(cl)
	for _, k := range cl {
		fmt.Printf("  clause %-40s evaluated %d\n", k, clauses[k])
	}
	if len(violations) > 0 {
		sort.SliceStable(violations, func(i, j int) bool { return len(violations[i].Path) < len(violations[j].Path) })
		for i, v := range violations {
			if i >= 6 {
				fmt.Printf("VIOLATION property=%s replay=%s\n", id, v.File)
				continue
			}
			fmt.Printf("VIOLATION property=%s replay=%s\n", id, v.File)
			fmt.Printf("  clause=%s tags=%v site=%s\n  detail=%s\n  trace=%v\n", v.Clause, v.Tags, v.Site, firstLines(v.Detail, 12), v.Trace)
		}
		return 1
	}
	return 0
}

func firstLines(s string, n int) string {
	l := strings.Split(s, "\n")
	if len(l) > n {
		l = append(l[:n], "...")
	}
	return strings.Join(l, "\n    ")
}

func cmdReplay(args []string) int {
	if len(args) < 1 {
		usage()
	}
	b, err := os.ReadFile(args[0])
	if err != nil {
		fmt.Fprintln(os.Stderr, "harness:", err)
		return 2
	}
	var v Violation
	if err := json.Unmarshal(b, &v); err != nil {
		fmt.Fprintln(os.Stderr, "harness:", err)
		return 2
	}
	ck := checks[v.Property]
	if ck == nil {
		fmt.Fprintln(os.Stderr, "harness: unknown check", v.Property)
		return 2
	}
	if v.Family == "fatal" {
		fmt.Println("this artefact records a worker process that died with a fatal runtime error; re-run the check to reproduce:")
		fmt.Println(v.Detail)
		return 1
	}
	for _, e := range workerEnv(ck.Env) {
		if i := strings.IndexByte(e, '='); i > 0 {
			k := e[:i]
			if k == "RUNEWIDTH_EASTASIAN" || k == "LC_ALL" || k == "LANG" {
				if os.Getenv(k) != e[i+1:] {
					// re-exec with the pinned environment (runewidth reads it at init)
					cmd := exec.Command(os.Args[0], os.Args[1:]...)
					cmd.Env = workerEnv(ck.Env)
					cmd.Stdout, cmd.Stderr = os.Stdout, os.Stderr
					if err := cmd.Run(); err != nil {
						if ee, ok := err.(*exec.ExitError); ok {
							return ee.ExitCode()
						}
						return 2
					}
					return 0
				}
			}
		}
	}
	if ck.Overlay && !builtWithOverlay {
		work := filepath.Join(outRoot(), ".work", fmt.Sprintf("replay-%d", os.Getpid()))
		defer os.RemoveAll(work)
		exe, _, err := buildOverlayBinary(work, false)
		if err != nil {
			fmt.Fprintln(os.Stderr, err)
			return 2
		}
		cmd := exec.Command(exe, os.Args[1:]...)
		cmd.Env = workerEnv(ck.Env)
		cmd.Stdout, cmd.Stderr = os.Stdout, os.Stderr
		if err := cmd.Run(); err != nil {
			if ee, ok := err.(*exec.ExitError); ok {
				return ee.ExitCode()
			}
			return 2
		}
		return 0
	}
	x := newX(v.Property, v.Tier, 0, 1)
	x.replay = &v
	ck.Run(x)
	if len(x.replayHit) == 0 {
		fmt.Println("harness: family not found:", v.Family)
		return 2
	}
	first := x.replayHit[0]
	for _, h := range x.replayHit {
		if h.Clause != first.Clause {
			fmt.Println("harness: NONDETERMINISM in replay")
			return 2
		}
	}
	if first.Clause == "" {
		fmt.Printf("replayed %d times: no violation (property holds on this execution)\n", len(x.replayHit))
		for _, s := range x.replayHit {
			_ = s
		}
		return 0
	}
	fmt.Printf("VIOLATION property=%s replay=%s\n", v.Property, args[0])
	fmt.Printf("  clause=%s site=%s\n  detail=%s\n  steps:\n", first.Clause, first.Site, first.Detail)
	for _, s := range first.Trace {
		fmt.Println("    ", s)
	}
	return 1
}
