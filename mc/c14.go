package main

import (
	"bytes"
	"errors"
	"fmt"
	"go.pennock.tech/tabular/texttable/decoration"
	"io"
	"strings"
	"time"

	"go.pennock.tech/tabular"
	"go.pennock.tech/tabular/auto"
	"go.pennock.tech/tabular/csv"
	thtml "go.pennock.tech/tabular/html"
	tjson "go.pennock.tech/tabular/json"
	"go.pennock.tech/tabular/markdown"
	"go.pennock.tech/tabular/properties"
	"go.pennock.tech/tabular/properties/align"
	"go.pennock.tech/tabular/texttable"
)

// C14 — rendering is repeatable and leaves the table unchanged.

func init() {
	register(&Check{
		ID:        "C14",
		Level:     "model_checking",
		Technique: "bounded exhaustive exploration of all sequences of render operations (formats, decorations, long-lived wrappers, package functions, auto styles) on the real tables; differential oracle against each target's first render on a fresh identical table, plus an observable-state snapshot compared around every render",
		Rule: "16 tables (shapes of C10 plus user properties on every owner kind, a recorded error, size-declaring items, alignment settings, a stale pointer item + zero-value Cell in a skipable column, a table whose JSON rendering fails half-way, a 56-row table) x family render-sequences: every sequence of length <=4 (thorough <=5) over 17 render operations: long-lived csv/json/markdown/html(+row classes)/text(default)/text(ascii) wrappers reused across the sequence, " +
			"the package-level functions (fresh wrapper each time), auto.Render for three styles, and the long-lived html wrapper re-pointed at a second table; family build+render: every sequence of <=4 (thorough 5) operations over 8 build operations (wide/multi-line rows, separator, cell added to an attached row, item mutated + Update, alignment settings, wider re-header) and the 17 render operations on one table - every render must equal the render of an identically built table that was never rendered before; family very-large-declared-sizes: items declaring heights of 1025 and 1500 lines and a width of 300 cells, every sequence of <=2 render operations; family many-repeats: each render operation 20 times on the same objects, then each other operation once; family after-failed-render: 9 tables x 6 long-lived wrappers x every writer fault (index k x 3 modes), then Render and RenderTo on the same wrapper must give the fault-free bytes; non-trivial = sequence with >=2 renders; distinct by (table, sequence)",
		Assumptions: []string{"no user callbacks are registered (the statement excludes failing/mutating ones)", "growth of internal callback lists by repeated Wrap is not part of the statement and is not judged",
			"observable state = row/column counts, every cell's text and location, headers, user-set properties on table/columns/rows/cells, the error list"},
		QuickBudget: 150 * time.Second, ThoroughBudget: 25 * time.Minute,
		Run: runC14,
	})
}

type userKey string

// unencodable has a stable text form but refuses JSON encoding.
type unencodable struct{}

func (unencodable) String() string               { return "unencodable" }
func (unencodable) MarshalJSON() ([]byte, error) { return nil, errors.New("refuses to be encoded") }

func c14Tables() []c10Table {
	ts := c10Tables()
	ts = ts[:10:10]
	ts = append(ts,
		c10Table{"user properties everywhere", func(t tabular.Table) {
			t.AddHeaders("h1", "h2")
			t.AddRowItems("a", "b")
			t.AddSeparator()
			t.AddRowItems("c\nd", "e")
			t.SetProperty(userKey("t"), 1)
			t.Column(0).SetProperty(userKey("c0"), 2)
			t.Column(1).SetProperty(userKey("c1"), 3)
			t.Column(2).SetProperty(align.PropertyType, align.Right)
			t.AllRows()[0].SetProperty(userKey("r"), 4)
			if c, err := t.CellAt(tabular.CellLocation{Row: 1, Column: 1}); err == nil {
				c.SetProperty(userKey("cell"), 5)
			}
			h := t.Headers()
			h[0].SetProperty(userKey("hdr"), 6)
		}},
		c10Table{"recorded error", func(t tabular.Table) {
			t.AddHeaders("h1", "h2")
			t.AddRowItems("a", "b")
			t.AddError(errors.New("user error"))
			t.AddSeparator()
			t.AllRows()[1].Add(tabular.NewCell("misuse"))
		}},
		c10Table{"stale pointer item (mutated after being added, no Update) and a zero-value Cell", func(t tabular.Table) {
			t.AddHeaders("h1", "h2", "h3")
			p := &Tsxxxx{ItemF{S: "old"}}
			t.AddRowItems(p, "x", "y")
			p.F.S = "changed after add, cell not updated"
			r := tabular.NewRow()
			r.Add(tabular.NewCell("a")).Add(tabular.Cell{}).Add(tabular.NewCell("c"))
			t.AddRow(r)
			t.Column(2).SetProperty(properties.Skipable, true)
		}},
		c10Table{"tall: 56 rows and separators", func(t tabular.Table) { WideGrids()[0].Build(t) }},
		c10Table{"json fails half-way (unencodable item in the second row)", func(t tabular.Table) {
			t.AddHeaders("h1", "h2")
			t.AddRowItems("fine", 1)
			t.AddRowItems("bad", unencodable{})
			t.AddRowItems("never reached", 2)
		}},
		c10Table{"size-declaring items", func(t tabular.Table) {
			t.AddHeaders("h1", "h2")
			a, _ := mkItem(mS|mH, false, ItemF{S: "x", H: 3})
			b, _ := mkItem(mS|mW, false, ItemF{S: "\x1b[1mB\x1b[0m", W: 1})
			t.AddRowItems(a, b)
			t.AddRowItems("plain", "y")
		}},
		c10Table{"twin texts: plain cells and size-declaring items with the SAME text, equal texts in several cells, a cell equal to its header", func(t tabular.Table) {
			t.AddHeaders("tw", "wide-header")
			w, _ := mkItem(mS|mW, false, ItemF{S: "tw", W: 5})
			h, _ := mkItem(mS|mH, false, ItemF{S: "tw", H: 2})
			t.AddRowItems("tw", "tw")
			t.AddRowItems(w, h)
			t.AddRowItems("tw", w)
			t.AddRowItems("tw", "tw")
		}},
	)
	return ts
}

// c14HeavyTables: expensive to render; used only in short families.
func c14HeavyTables() []c10Table {
	return []c10Table{
		c10Table{"items declaring very large sizes (height 1025 and 1500, width 300)", func(t tabular.Table) {
			t.AddHeaders("h1", "h2")
			a, _ := mkItem(mS|mH, false, ItemF{S: "tall", H: 1025})
			b, _ := mkItem(mS|mH|mW, false, ItemF{S: "taller", H: 1500, W: 300})
			t.AddRowItems(a, "x")
			t.AddRowItems("y", b)
		}},
	}
}

func c14Snapshot(t tabular.Table) string {
	var sb strings.Builder
	fmt.Fprintf(&sb, "rows=%d cols=%d\n", t.NRows(), t.NColumns())
	props := func(po tabular.PropertyOwner) string {
		var s []string
		for _, k := range []interface{}{userKey("t"), userKey("c0"), userKey("c1"), userKey("r"), userKey("cell"), userKey("hdr"), align.PropertyType} {
			if v := po.GetProperty(k); v != nil {
				s = append(s, fmt.Sprintf("%v=%v", k, v))
			}
		}
		return strings.Join(s, ",")
	}
	fmt.Fprintf(&sb, "tableprops{%s}\n", props(t))
	for n := 0; n <= t.NColumns(); n++ {
		if c := t.Column(n); c != nil {
			fmt.Fprintf(&sb, "col%d{%s}\n", n, props(c))
		}
	}
	if h := t.Headers(); h != nil {
		for i := range h {
			fmt.Fprintf(&sb, "hdr[%d]=%q %v{%s}\n", i, h[i].String(), h[i].Location().Column, props(&h[i]))
		}
	} else {
		sb.WriteString("nohdr\n")
	}
	for i, r := range t.AllRows() {
		fmt.Fprintf(&sb, "row%d sep=%v loc=%v{%s}:", i, r.IsSeparator(), r.Location(), props(r))
		cs := r.Cells()
		for j := range cs {
			fmt.Fprintf(&sb, " %q@%v h%d w%d e%v{%s}", cs[j].String(), cs[j].Location(), cs[j].Height(), cs[j].TerminalCellWidth(), cs[j].Empty(), props(&cs[j]))
		}
		sb.WriteString("\n")
	}
	fmt.Fprintf(&sb, "errors=%v\n", t.Errors())
	return sb.String()
}

// wrappers that live for a whole sequence
type c14Wrappers struct {
	t     tabular.Table
	other tabular.Table
	csv   *csv.CSVTable
	json  *tjson.JSONTable
	md    *markdown.MarkdownTable
	html  *thtml.HTMLTable
	text  *texttable.TextTable
	ascii *texttable.TextTable
}

type c14Op struct {
	name string
	// run renders; onOther reports that the output is of the second table
	run     func(w *c14Wrappers) (string, error)
	onOther bool
}

func c14Ops() []c14Op {
	return []c14Op{
		{"csv wrapper.Render()", func(w *c14Wrappers) (string, error) {
			if w.csv == nil {
				w.csv = csv.Wrap(w.t)
			}
			return w.csv.Render()
		}, false},
		{"json wrapper.Render()", func(w *c14Wrappers) (string, error) {
			if w.json == nil {
				w.json = tjson.Wrap(w.t)
			}
			return w.json.Render()
		}, false},
		{"markdown wrapper.Render()", func(w *c14Wrappers) (string, error) {
			if w.md == nil {
				w.md = markdown.Wrap(w.t)
			}
			return w.md.Render()
		}, false},
		{"html wrapper(+row classes).Render()", func(w *c14Wrappers) (string, error) {
			if w.html == nil {
				w.html = thtml.Wrap(w.t).SetRowClassGenerator(rowClassGen, nil)
				w.html.Caption = "cap"
			}
			w.html.Table = w.t
			return w.html.Render()
		}, false},
		{"html wrapper re-pointed at a second table", func(w *c14Wrappers) (string, error) {
			if w.html == nil {
				w.html = thtml.Wrap(w.t).SetRowClassGenerator(rowClassGen, nil)
				w.html.Caption = "cap"
			}
			w.html.Table = w.other
			defer func() { w.html.Table = w.t }()
			return w.html.Render()
		}, true},
		{"text wrapper(default).Render()", func(w *c14Wrappers) (string, error) {
			if w.text == nil {
				w.text = texttable.Wrap(w.t)
			}
			return w.text.Render()
		}, false},
		{"text wrapper(ascii-simple).Render()", func(w *c14Wrappers) (string, error) {
			if w.ascii == nil {
				w.ascii = texttable.Wrap(w.t)
				w.ascii.SetDecorationNamed("ascii-simple")
			}
			return w.ascii.Render()
		}, false},
		{"json.Render(second table)", func(w *c14Wrappers) (string, error) { return tjson.Render(w.other) }, true},
		{"texttable.Render(second table)", func(w *c14Wrappers) (string, error) { return texttable.Render(w.other) }, true},
		{"csv.Render(t)", func(w *c14Wrappers) (string, error) { return csv.Render(w.t) }, false},
		{"json.Render(t)", func(w *c14Wrappers) (string, error) { return tjson.Render(w.t) }, false},
		{"markdown.Render(t)", func(w *c14Wrappers) (string, error) { return markdown.Render(w.t) }, false},
		{"texttable.Render(t)", func(w *c14Wrappers) (string, error) { return texttable.Render(w.t) }, false},
		{"auto.Render(t, utf8-light)", func(w *c14Wrappers) (string, error) { return auto.Render(w.t, "utf8-light") }, false},
		{"auto.Render(t, none)", func(w *c14Wrappers) (string, error) { return auto.Render(w.t, "none") }, false},
		{"auto.Render(t, html)", func(w *c14Wrappers) (string, error) { return auto.Render(w.t, "html") }, false},
		{"auto.Render(t, utf8-double)", func(w *c14Wrappers) (string, error) { return auto.Render(w.t, "utf8-double") }, false},
		{"auto.Render(t, c14fam.left)   // one of two registered names with the same first section and length", func(w *c14Wrappers) (string, error) {
			c14RegisterSiblings()
			return auto.Render(w.t, "c14fam.left")
		}, false},
	}
}

// c14RegisterSiblings registers (idempotently) two decorations whose names share the first dot-separated section
// and have equal length; which one a style string selects must not vary from render to render.
func c14RegisterSiblings() {
	if decoration.Named("c14fam.left") == decoration.EmptyDecoration {
		decoration.RegisterDecorationName("c14fam.left", customFromMask(7|1<<5))
		decoration.RegisterDecorationName("c14fam.rght", customFromMask(7|1<<6))
	}
}

func c14Other() tabular.Table {
	t := tabular.New()
	t.AddHeaders("other", "table")
	t.AddRowItems("o1", "o2")
	t.AddRowItems("o3")
	return t
}

// ---------------------------------------------------------------------------
// family build+render: renders interleaved with further building; a render must not
// influence what a later render shows after the table has changed.

type c14Mut struct {
	t   tabular.Table
	ptr *Tsxxxx // pointer item in cell (1,2); mutated by the "mutate+Update" op
	n   int
}

func c14NewMut() *c14Mut {
	m := &c14Mut{t: tabular.New()}
	p := &Tsxxxx{ItemF{S: "p0"}}
	m.t.AddHeaders("h1", "h2")
	m.t.AddRowItems("a", p)
	m.ptr = p
	return m
}

var c14BuildOps = []struct {
	name string
	do   func(m *c14Mut)
}{
	{"AddRowItems(wide)", func(m *c14Mut) { m.n++; m.t.AddRowItems(fmt.Sprintf("row%d", m.n), strings.Repeat("w", 4+m.n)) }},
	{"AddRowItems(multi-line)", func(m *c14Mut) { m.n++; m.t.AddRowItems("x\ny\nz") }},
	{"AddSeparator", func(m *c14Mut) { m.t.AddSeparator() }},
	{"lastRow.Add(cell)", func(m *c14Mut) {
		rr := m.t.AllRows()
		for i := len(rr) - 1; i >= 0; i-- {
			if !rr[i].IsSeparator() {
				m.n++
				rr[i].Add(tabular.NewCell(fmt.Sprintf("late%d", m.n)))
				return
			}
		}
	}},
	{"mutate item + cell.Update()", func(m *c14Mut) {
		m.n++
		m.ptr.F.S = "mutated-" + strings.Repeat("m", m.n)
		if c, err := m.t.CellAt(tabular.CellLocation{Row: 1, Column: 2}); err == nil {
			c.Update()
		}
	}},
	{"Column(1) align right", func(m *c14Mut) { m.t.Column(1).SetProperty(align.PropertyType, align.Right) }},
	{"Column(0) align centre", func(m *c14Mut) { m.t.Column(0).SetProperty(align.PropertyType, align.Center) }},
	{"AddHeaders(wider)", func(m *c14Mut) { m.n++; m.t.AddHeaders("H1-"+strings.Repeat("h", m.n), "H2", "H3") }},
}

func runC14(x *X) {
	bops := c14BuildOps
	rops := c14Ops()
	depth := x.Pick(4, 5)
	x.Explore("build+render", ExploreOpts{ShardDepth: 2, Bound: fmt.Sprintf("all sequences of <=%d operations over %d build ops and %d render ops on one table with long-lived wrappers", depth, len(bops), len(rops))}, func(c *Chooser) {
		m := c14NewMut()
		w := &c14Wrappers{t: m.t, other: c14Other()}
		var builds []int
		var seq []string
		renders := 0
		for step := 0; step < depth; step++ {
			k := c.Choose(1 + len(bops) + len(rops))
			if k == 0 {
				break
			}
			x.Transition(1)
			if k <= len(bops) {
				op := bops[k-1]
				c.Logf("%s", op.name)
				op.do(m)
				builds = append(builds, k-1)
				seq = append(seq, op.name)
				continue
			}
			op := rops[k-1-len(bops)]
			c.Logf("%s", op.name)
			seq = append(seq, op.name)
			var out string
			var err error
			tags := []string{"op:" + op.name, "build_and_render_interleaved"}
			if renders > 0 {
				tags = append(tags, "rendered_before_the_table_changed")
			}
			if p, val, site := Safe(func() { out, err = op.run(w) }); p {
				x.FailSite("C14.no_panic", append(tags, "panic"), site, "%s panicked: %v after %v", op.name, val, seq)
				return
			}
			renders++
			// reference: a fresh table that went through the same build operations and was never rendered
			f := c14NewMut()
			for _, b := range builds {
				bops[b].do(f)
			}
			fw := &c14Wrappers{t: f.t, other: c14Other()}
			var want string
			var werr error
			Safe(func() { want, werr = op.run(fw) })
			x.Clause("C14.same_bytes_as_never_rendered_table")
			if out != want || (err != nil) != (werr != nil) {
				x.Fail("C14.same_bytes_as_never_rendered_table", tags, "%s after %v gives\n%s(err %v)\nbut a table built the same way and never rendered before gives\n%s(err %v)", op.name, seq, out, err, want, werr)
				return
			}
		}
		x.State(fmt.Sprint(seq))
		if renders > 0 && len(builds) > 0 {
			x.Nontrivial(fmt.Sprint(seq))
		}
	})
	runC14Sequences(x)
	runC14AfterFailure(x)
	runC14Repeats(x, c14Tables(), c14Ops())
	runC14Interleaved(x)
	runC14Reentrant(x)
	runC14OuterWrapper(x)
	heavy := c14HeavyTables()
	hops := c14Ops()
	x.Explore("very-large-declared-sizes", ExploreOpts{ShardDepth: 2, Bound: "a table whose items declare heights of 1025 and 1500 lines and a width of 300 cells x every sequence of <=2 render operations"}, func(c *Chooser) {
		t := tabular.New()
		heavy[0].build(t)
		w := &c14Wrappers{t: t, other: c14Other()}
		before := c14Snapshot(t)
		var seq []string
		for step := 0; step < 2; step++ {
			k := c.Choose(len(hops) + 1)
			if k == 0 {
				break
			}
			op := hops[k-1]
			seq = append(seq, op.name)
			c.Logf("%s", op.name)
			x.Transition(1)
			ref := tabular.New()
			heavy[0].build(ref)
			var want, out string
			var werr, err error
			Safe(func() { want, werr = op.run(&c14Wrappers{t: ref, other: c14Other()}) })
			if p, val, site := Safe(func() { out, err = op.run(w) }); p {
				x.FailSite("C14.no_panic", []string{"panic", "very_large_declared_size"}, site, "%s panicked: %v", op.name, val)
				return
			}
			x.Clause("C14.same_bytes_as_first_render")
			if out != want || (err != nil) != (werr != nil) {
				x.Fail("C14.same_bytes_as_first_render", []string{"very_large_declared_size"}, "%s as step %d differs from the same operation alone on a fresh identical table (err %v vs %v; %d vs %d bytes)", op.name, step+1, err, werr, len(out), len(want))
				return
			}
			x.Clause("C14.table_unchanged")
			if after := c14Snapshot(t); after != before {
				x.Fail("C14.table_unchanged", []string{"very_large_declared_size"}, "observable table state changed across %s (sequence %v):\n--- before\n%s--- after\n%s", op.name, seq, before, after)
				return
			}
		}
		x.Nontrivial(fmt.Sprint(seq))
	})
}

// family after-failed-render: a RenderTo that failed (writer fault at call k) on a long-lived wrapper
// must not influence the next render of that wrapper.
type c14Renderer interface {
	Render() (string, error)
	RenderTo(io.Writer) error
}

func runC14AfterFailure(x *X) {
	tables := c15Tables()
	mks := []struct {
		name string
		mk   func(t tabular.Table) c14Renderer
	}{
		{"csv", func(t tabular.Table) c14Renderer { return csv.Wrap(t) }},
		{"json", func(t tabular.Table) c14Renderer { return tjson.Wrap(t) }},
		{"markdown", func(t tabular.Table) c14Renderer { return markdown.Wrap(t) }},
		{"html", func(t tabular.Table) c14Renderer { return thtml.Wrap(t).SetRowClassGenerator(rowClassGen, nil) }},
		{"text", func(t tabular.Table) c14Renderer { return texttable.Wrap(t) }},
		{"text:none", func(t tabular.Table) c14Renderer { tt := texttable.Wrap(t); tt.SetDecorationNamed("none"); return tt }},
	}
	type ref struct {
		out   string
		err   bool
		calls int
	}
	refs := map[[2]int]ref{}
	for ti, tb := range tables {
		for ri, m := range mks {
			t := tabular.New()
			tb.build(t)
			r := m.mk(t)
			fw := &faultWriter{}
			r.RenderTo(fw)
			out, err := r.Render()
			refs[[2]int{ti, ri}] = ref{out, err != nil, fw.calls}
		}
	}
	x.Explore("after-failed-render", ExploreOpts{ShardDepth: 2, Bound: "9 tables x 6 long-lived wrappers x every Write index k x {fail from k on, fail only at k, partial write + error}; then Render() and RenderTo() on the same wrapper"}, func(c *Chooser) {
		ti, ri := c.Choose(len(tables)), c.Choose(len(mks))
		rf := refs[[2]int{ti, ri}]
		if rf.calls == 0 {
			c.Choose(1)
			return
		}
		k := 1 + c.Choose(rf.calls)
		mode := 1 + c.Choose(3)
		t := tabular.New()
		tables[ti].build(t)
		r := mks[ri].mk(t)
		c.Logf("table %q, long-lived %s wrapper: RenderTo(writer failing at call %d, mode %d); then Render()", tables[ti].name, mks[ri].name, k, mode)
		x.Transition(2)
		tags := []string{"op:" + mks[ri].name, "render_after_failed_render"}
		fw := &faultWriter{mode: mode, k: k}
		var out string
		var err error
		if p, val, site := Safe(func() { r.RenderTo(fw); out, err = r.Render() }); p {
			x.FailSite("C14.no_panic", append(tags, "panic"), site, "%s panicked: %v", mks[ri].name, val)
			return
		}
		x.Nontrivial(fmt.Sprint(ti, ri, k, mode))
		x.Clause("C14.same_bytes_as_first_render")
		if out != rf.out || (err != nil) != rf.err {
			x.Fail("C14.same_bytes_as_first_render", tags, "after a RenderTo that failed at write %d, Render() on the same %s wrapper gives\n%q (err %v)\nbut on a fresh wrapper it gives\n%q", k, mks[ri].name, out, err, rf.out)
			return
		}
		var b bytes.Buffer
		err = r.RenderTo(&b)
		if b.String() != rf.out && !rf.err || (err != nil) != rf.err {
			x.Fail("C14.same_bytes_as_first_render", tags, "after a failed RenderTo and a Render, RenderTo on the same %s wrapper writes\n%q (err %v), want\n%q", mks[ri].name, b.String(), err, rf.out)
		}
	})
}

// family many-repeats: the n-th use must equal the first (each operation repeated up to 20 times, then every other one once)
func runC14Repeats(x *X, tables []c10Table, ops []c14Op) {
	x.Explore("many-repeats", ExploreOpts{ShardDepth: 2, Bound: "4 tables x each render operation repeated 20 times on the same objects, followed by each other operation once"}, func(c *Chooser) {
		ti := []int{0, 3, 10, 11}[c.Choose(4)]
		oi := c.Choose(len(ops))
		oj := c.Choose(len(ops))
		t := tabular.New()
		tables[ti].build(t)
		w := &c14Wrappers{t: t, other: c14Other()}
		before := c14Snapshot(t)
		c.Logf("table %q: 20 x %s, then %s", tables[ti].name, ops[oi].name, ops[oj].name)
		var first string
		var firstErr error
		for k := 0; k < 20; k++ {
			var out string
			var err error
			if p, val, site := Safe(func() { out, err = ops[oi].run(w) }); p {
				x.FailSite("C14.no_panic", []string{"panic", "many_repeats"}, site, "%s panicked at repetition %d: %v", ops[oi].name, k+1, val)
				return
			}
			if k == 0 {
				first, firstErr = out, err
				continue
			}
			x.Clause("C14.same_bytes_as_first_render")
			if out != first || (err != nil) != (firstErr != nil) {
				x.Fail("C14.same_bytes_as_first_render", []string{"many_repeats", fmt.Sprintf("repetition:%d", k+1)}, "%s: repetition %d differs from the first on table %q\n%s\n--- first:\n%s", ops[oi].name, k+1, tables[ti].name, out, first)
				return
			}
		}
		x.Transition(21)
		ref := tabular.New()
		tables[ti].build(ref)
		want, werr := "", error(nil)
		Safe(func() { want, werr = ops[oj].run(&c14Wrappers{t: ref, other: c14Other()}) })
		var out string
		var err error
		Safe(func() { out, err = ops[oj].run(w) })
		if out != want || (err != nil) != (werr != nil) {
			x.Fail("C14.same_bytes_as_first_render", []string{"many_repeats"}, "%s after 20 x %s differs from the same operation on a fresh identical table (table %q)\n%s\n--- fresh:\n%s", ops[oj].name, ops[oi].name, tables[ti].name, out, want)
			return
		}
		x.Clause("C14.table_unchanged")
		if after := c14Snapshot(t); after != before {
			x.Fail("C14.table_unchanged", []string{"many_repeats"}, "observable table state changed after 20 x %s + %s:\n--- before\n%s--- after\n%s", ops[oi].name, ops[oj].name, before, after)
		}
		x.Nontrivial(fmt.Sprint(ti, oi, oj))
	})
}

func runC14Sequences(x *X) {
	tables := c14Tables()
	ops := c14Ops()
	type base struct {
		out string
		err string
	}
	errStr := func(e error) string {
		if e == nil {
			return ""
		}
		return e.Error()
	}
	// baseline: each op alone on a fresh identical table
	baseline := map[[2]int]base{}
	for ti, tb := range tables {
		for oi, op := range ops {
			t := tabular.New()
			tb.build(t)
			w := &c14Wrappers{t: t, other: c14Other()}
			var out string
			var err error
			Safe(func() { out, err = op.run(w) })
			baseline[[2]int{ti, oi}] = base{out, errStr(err)}
		}
	}
	maxLen := x.Pick(4, 5)
	x.Explore("render-sequences", ExploreOpts{ShardDepth: 2, Bound: fmt.Sprintf("%d tables x all sequences of <=%d of %d render operations", len(tables), maxLen, len(ops))}, func(c *Chooser) {
		ti := c.Choose(len(tables))
		tb := tables[ti]
		t := tabular.New()
		tb.build(t)
		w := &c14Wrappers{t: t, other: c14Other()}
		c.Logf("table %q", tb.name)
		before := c14Snapshot(t)
		otherBefore := c14Snapshot(w.other)
		var seq []int
		limit := maxLen
		if strings.HasPrefix(tb.name, "tall") {
			limit = maxLen - 1 // the 56-row table is expensive to render
		}
		for step := 0; step < limit; step++ {
			k := c.Choose(len(ops) + 1)
			if k == 0 {
				break
			}
			oi := k - 1
			op := ops[oi]
			seq = append(seq, oi)
			c.Logf("%s", op.name)
			x.Transition(1)
			tags := []string{"op:" + op.name}
			if step > 0 {
				tags = append(tags, "after_other_renders")
			}
			var out string
			var err error
			if p, val, site := Safe(func() { out, err = op.run(w) }); p {
				x.FailSite("C14.no_panic", append(tags, "panic"), site, "%s panicked: %v (table %q, sequence %v)", op.name, val, tb.name, seq)
				return
			}
			b := baseline[[2]int{ti, oi}]
			x.Clause("C14.same_bytes_as_first_render")
			if out != b.out || errStr(err) != b.err {
				x.Fail("C14.same_bytes_as_first_render", tags, "%s as step %d of the sequence gives\n%s(err %v)\nbut alone on a fresh identical table it gives\n%s(err %q)\ntable %q", op.name, step+1, out, err, b.out, b.err, tb.name)
				return
			}
			x.Clause("C14.table_unchanged")
			if after := c14Snapshot(t); after != before {
				x.Fail("C14.table_unchanged", tags, "observable table state changed across %s:\n--- before\n%s--- after\n%s", op.name, before, after)
				return
			}
			if after := c14Snapshot(w.other); after != otherBefore {
				x.Fail("C14.table_unchanged", tags, "observable state of the second table changed across %s", op.name)
				return
			}
		}
		x.State(fmt.Sprint(ti, seq))
		if len(seq) >= 2 {
			x.Nontrivial(fmt.Sprint(ti, seq))
		}
	})
}
