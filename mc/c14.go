package main

import (
	"errors"
	"fmt"
	"strings"
	"time"

	"go.pennock.tech/tabular"
	"go.pennock.tech/tabular/auto"
	"go.pennock.tech/tabular/csv"
	thtml "go.pennock.tech/tabular/html"
	tjson "go.pennock.tech/tabular/json"
	"go.pennock.tech/tabular/markdown"
	"go.pennock.tech/tabular/properties/align"
	"go.pennock.tech/tabular/texttable"
)

// C14 — rendering is repeatable and leaves the table unchanged.

func init() {
	register(&Check{
		ID:        "C14",
		Level:     "model_checking",
		Technique: "bounded exhaustive exploration of all sequences of render operations (formats, decorations, long-lived wrappers, package functions, auto styles) on the real tables; differential oracle against each target's first render on a fresh identical table, plus an observable-state snapshot compared around every render",
		Rule: "13 tables (shapes of C10 plus user properties on every owner kind, a recorded error, size-declaring items, alignment settings) x every sequence of length <=4 (thorough <=5) over 15 render operations: long-lived csv/json/markdown/html(+row classes)/text(default)/text(ascii) wrappers reused across the sequence, " +
			"the package-level functions (fresh wrapper each time), auto.Render for three styles, and the long-lived html wrapper re-pointed at a second table; non-trivial = sequence with >=2 renders; distinct by (table, sequence)",
		Assumptions: []string{"no user callbacks are registered (the statement excludes failing/mutating ones)", "growth of internal callback lists by repeated Wrap is not part of the statement and is not judged",
			"observable state = row/column counts, every cell's text and location, headers, user-set properties on table/columns/rows/cells, the error list"},
		QuickBudget: 150 * time.Second, ThoroughBudget: 25 * time.Minute,
		Run: runC14,
	})
}

type userKey string

func c14Tables() []c10Table {
	ts := c10Tables()
	ts = ts[:10]
	ts = append(ts,
		c10Table{"user properties everywhere", func(t tabular.Table) {
			t.AddHeaders("h1", "h2")
			t.AddRowItems("a", "b")
			t.AddSeparator()
			t.AddRowItems("c\nd", "e")
			t.SetProperty(userKey("t"), 1)
			t.Column(0).SetProperty(userKey("c0"), 2)
			t.Column(1).SetProperty(userKey("c1"), 3)
			t.Column(2).SetProperty(align.PropertyType, align.Right)
			t.AllRows()[0].SetProperty(userKey("r"), 4)
			if c, err := t.CellAt(tabular.CellLocation{Row: 1, Column: 1}); err == nil {
				c.SetProperty(userKey("cell"), 5)
			}
			h := t.Headers()
			h[0].SetProperty(userKey("hdr"), 6)
		}},
		c10Table{"recorded error", func(t tabular.Table) {
			t.AddHeaders("h1", "h2")
			t.AddRowItems("a", "b")
			t.AddError(errors.New("user error"))
			t.AddSeparator()
			t.AllRows()[1].Add(tabular.NewCell("misuse"))
		}},
		c10Table{"size-declaring items", func(t tabular.Table) {
			t.AddHeaders("h1", "h2")
			a, _ := mkItem(mS|mH, false, ItemF{S: "x", H: 3})
			b, _ := mkItem(mS|mW, false, ItemF{S: "\x1b[1mB\x1b[0m", W: 1})
			t.AddRowItems(a, b)
			t.AddRowItems("plain", "y")
		}},
	)
	return ts
}

func c14Snapshot(t tabular.Table) string {
	var sb strings.Builder
	fmt.Fprintf(&sb, "rows=%d cols=%d\n", t.NRows(), t.NColumns())
	props := func(po tabular.PropertyOwner) string {
		var s []string
		for _, k := range []interface{}{userKey("t"), userKey("c0"), userKey("c1"), userKey("r"), userKey("cell"), userKey("hdr"), align.PropertyType} {
			if v := po.GetProperty(k); v != nil {
				s = append(s, fmt.Sprintf("%v=%v", k, v))
			}
		}
		return strings.Join(s, ",")
	}
	fmt.Fprintf(&sb, "tableprops{%s}\n", props(t))
	for n := 0; n <= t.NColumns(); n++ {
		if c := t.Column(n); c != nil {
			fmt.Fprintf(&sb, "col%d{%s}\n", n, props(c))
		}
	}
	if h := t.Headers(); h != nil {
		for i := range h {
			fmt.Fprintf(&sb, "hdr[%d]=%q %v{%s}\n", i, h[i].String(), h[i].Location().Column, props(&h[i]))
		}
	} else {
		sb.WriteString("nohdr\n")
	}
	for i, r := range t.AllRows() {
		fmt.Fprintf(&sb, "row%d sep=%v loc=%v{%s}:", i, r.IsSeparator(), r.Location(), props(r))
		cs := r.Cells()
		for j := range cs {
			fmt.Fprintf(&sb, " %q@%v h%d w%d e%v{%s}", cs[j].String(), cs[j].Location(), cs[j].Height(), cs[j].TerminalCellWidth(), cs[j].Empty(), props(&cs[j]))
		}
		sb.WriteString("\n")
	}
	fmt.Fprintf(&sb, "errors=%v\n", t.Errors())
	return sb.String()
}

// wrappers that live for a whole sequence
type c14Wrappers struct {
	t     tabular.Table
	other tabular.Table
	csv   *csv.CSVTable
	json  *tjson.JSONTable
	md    *markdown.MarkdownTable
	html  *thtml.HTMLTable
	text  *texttable.TextTable
	ascii *texttable.TextTable
}

type c14Op struct {
	name string
	// run renders; onOther reports that the output is of the second table
	run     func(w *c14Wrappers) (string, error)
	onOther bool
}

func c14Ops() []c14Op {
	return []c14Op{
		{"csv wrapper.Render()", func(w *c14Wrappers) (string, error) {
			if w.csv == nil {
				w.csv = csv.Wrap(w.t)
			}
			return w.csv.Render()
		}, false},
		{"json wrapper.Render()", func(w *c14Wrappers) (string, error) {
			if w.json == nil {
				w.json = tjson.Wrap(w.t)
			}
			return w.json.Render()
		}, false},
		{"markdown wrapper.Render()", func(w *c14Wrappers) (string, error) {
			if w.md == nil {
				w.md = markdown.Wrap(w.t)
			}
			return w.md.Render()
		}, false},
		{"html wrapper(+row classes).Render()", func(w *c14Wrappers) (string, error) {
			if w.html == nil {
				w.html = thtml.Wrap(w.t).SetRowClassGenerator(rowClassGen, nil)
				w.html.Caption = "cap"
			}
			w.html.Table = w.t
			return w.html.Render()
		}, false},
		{"html wrapper re-pointed at a second table", func(w *c14Wrappers) (string, error) {
			if w.html == nil {
				w.html = thtml.Wrap(w.t).SetRowClassGenerator(rowClassGen, nil)
				w.html.Caption = "cap"
			}
			w.html.Table = w.other
			defer func() { w.html.Table = w.t }()
			return w.html.Render()
		}, true},
		{"text wrapper(default).Render()", func(w *c14Wrappers) (string, error) {
			if w.text == nil {
				w.text = texttable.Wrap(w.t)
			}
			return w.text.Render()
		}, false},
		{"text wrapper(ascii-simple).Render()", func(w *c14Wrappers) (string, error) {
			if w.ascii == nil {
				w.ascii = texttable.Wrap(w.t)
				w.ascii.SetDecorationNamed("ascii-simple")
			}
			return w.ascii.Render()
		}, false},
		{"csv.Render(t)", func(w *c14Wrappers) (string, error) { return csv.Render(w.t) }, false},
		{"json.Render(t)", func(w *c14Wrappers) (string, error) { return tjson.Render(w.t) }, false},
		{"markdown.Render(t)", func(w *c14Wrappers) (string, error) { return markdown.Render(w.t) }, false},
		{"texttable.Render(t)", func(w *c14Wrappers) (string, error) { return texttable.Render(w.t) }, false},
		{"auto.Render(t, utf8-light)", func(w *c14Wrappers) (string, error) { return auto.Render(w.t, "utf8-light") }, false},
		{"auto.Render(t, none)", func(w *c14Wrappers) (string, error) { return auto.Render(w.t, "none") }, false},
		{"auto.Render(t, html)", func(w *c14Wrappers) (string, error) { return auto.Render(w.t, "html") }, false},
		{"auto.Render(t, utf8-double)", func(w *c14Wrappers) (string, error) { return auto.Render(w.t, "utf8-double") }, false},
	}
}

func c14Other() tabular.Table {
	t := tabular.New()
	t.AddHeaders("other", "table")
	t.AddRowItems("o1", "o2")
	t.AddRowItems("o3")
	return t
}

func runC14(x *X) {
	tables := c14Tables()
	ops := c14Ops()
	type base struct {
		out string
		err string
	}
	errStr := func(e error) string {
		if e == nil {
			return ""
		}
		return e.Error()
	}
	// baseline: each op alone on a fresh identical table
	baseline := map[[2]int]base{}
	for ti, tb := range tables {
		for oi, op := range ops {
			t := tabular.New()
			tb.build(t)
			w := &c14Wrappers{t: t, other: c14Other()}
			var out string
			var err error
			Safe(func() { out, err = op.run(w) })
			baseline[[2]int{ti, oi}] = base{out, errStr(err)}
		}
	}
	maxLen := x.Pick(4, 5)
	x.Explore("render-sequences", ExploreOpts{ShardDepth: 2, Bound: fmt.Sprintf("%d tables x all sequences of <=%d of %d render operations", len(tables), maxLen, len(ops))}, func(c *Chooser) {
		ti := c.Choose(len(tables))
		tb := tables[ti]
		t := tabular.New()
		tb.build(t)
		w := &c14Wrappers{t: t, other: c14Other()}
		c.Logf("table %q", tb.name)
		before := c14Snapshot(t)
		otherBefore := c14Snapshot(w.other)
		var seq []int
		for step := 0; step < maxLen; step++ {
			k := c.Choose(len(ops) + 1)
			if k == 0 {
				break
			}
			oi := k - 1
			op := ops[oi]
			seq = append(seq, oi)
			c.Logf("%s", op.name)
			x.Transition(1)
			tags := []string{"op:" + op.name}
			if step > 0 {
				tags = append(tags, "after_other_renders")
			}
			var out string
			var err error
			if p, val, site := Safe(func() { out, err = op.run(w) }); p {
				x.FailSite("C14.no_panic", append(tags, "panic"), site, "%s panicked: %v (table %q, sequence %v)", op.name, val, tb.name, seq)
				return
			}
			b := baseline[[2]int{ti, oi}]
			x.Clause("C14.same_bytes_as_first_render")
			if out != b.out || errStr(err) != b.err {
				x.Fail("C14.same_bytes_as_first_render", tags, "%s as step %d of the sequence gives\n%s(err %v)\nbut alone on a fresh identical table it gives\n%s(err %q)\ntable %q", op.name, step+1, out, err, b.out, b.err, tb.name)
				return
			}
			x.Clause("C14.table_unchanged")
			if after := c14Snapshot(t); after != before {
				x.Fail("C14.table_unchanged", tags, "observable table state changed across %s:\n--- before\n%s--- after\n%s", op.name, before, after)
				return
			}
			if after := c14Snapshot(w.other); after != otherBefore {
				x.Fail("C14.table_unchanged", tags, "observable state of the second table changed across %s", op.name)
				return
			}
		}
		x.State(fmt.Sprint(ti, seq))
		if len(seq) >= 2 {
			x.Nontrivial(fmt.Sprint(ti, seq))
		}
	})
}
