package main

// extraCommand dispatches auxiliary sub-commands (overlay generation, mutant runs).
func extraCommand(name string, args []string) bool {
	if f, ok := extraCommands[name]; ok {
		f(args)
		return true
	}
	return false
}

var extraCommands = map[string]func(args []string){}
