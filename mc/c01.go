package main

import (
	"fmt"
	"html"
	"math"
	"reflect"
	"strings"
	"time"

	"go.pennock.tech/tabular"
	"go.pennock.tech/tabular/csv"
	thtml "go.pennock.tech/tabular/html"
	"go.pennock.tech/tabular/length"
	"go.pennock.tech/tabular/texttable"
)

// C01 — a cell's text is the documented text form of the item stored in it.

func init() {
	register(&Check{
		ID:        "C01",
		Level:     "exploration",
		Technique: "bounded exhaustive input/configuration enumeration: one generated item type per subset of the five interfaces, by value and by pointer, every combination of method results, every storing path, mutation before/after Update; oracle = the documented precedence ladder",
		Rule: "family interfaces: 32 generated types (every subset of String/GoString/Error/Height/TerminalCellWidth) x value|pointer x every assignment of a 4-text (thorough 6-text) pool to the text methods present x 2 values per size method present x 4 storing paths (NewCell, Row.Add, AddRowItems, AddHeaders), " +
			"pointer items additionally mutated and observed before Update (also after rendering the surrounding table with every renderer), after Update and after a second Update; family plain: nil, strings, runes (ASCII, 2-byte, 3-byte, NUL, LF, int32), ints, floats, bools, slices, maps, method-less structs, errors, and each of them nested in a Cell (depth 1, 2) and behind *Cell; " +
			"non-trivial = item implementing >=1 interface, or a non-string plain item; distinct by (type, values, path)",
		Assumptions: []string{"typed-nil pointers are outside the alphabet (their methods have no result to give)", "fmt's %v is the reference for 'anything else'"},
		QuickBudget: 90 * time.Second, ThoroughBudget: 15 * time.Minute,
		Run: runC01,
	})
}

// refText: the documented text form, decided from the capability mask recorded in the test item itself.
func refText(mask int, f ItemF, item interface{}) string {
	switch {
	case mask&mS != 0:
		return f.S
	case mask&mG != 0:
		return f.G
	case mask&mE != 0:
		return f.E
	}
	return fmt.Sprintf("%v", item)
}

var c01Paths = []string{"NewCell", "Row.Add", "AddRowItems", "AddHeaders"}

// c01Store stores item through the given path and returns a pointer to the stored cell.
func c01Store(path int, item interface{}) *tabular.Cell {
	c, _ := c01StoreIn(path, item)
	return c
}

// c01StoreIn also returns the table the cell lives in (nil for stand-alone cells and detached rows).
func c01StoreIn(path int, item interface{}) (*tabular.Cell, tabular.Table) {
	switch path {
	case 0:
		c := tabular.NewCell(item)
		return &c, nil
	case 1:
		r := tabular.NewRow()
		r.Add(tabular.NewCell(item))
		return &r.Cells()[0], nil
	case 2:
		t := tabular.New()
		t.AddHeaders("h")
		t.AddRowItems(item)
		c, err := t.CellAt(tabular.CellLocation{Row: 1, Column: 1})
		if err != nil {
			panic("harness: CellAt(1,1) after AddRowItems: " + err.Error())
		}
		return c, t
	default:
		t := tabular.New()
		t.AddHeaders(item)
		t.AddRowItems("x")
		return &t.Headers()[0], t
	}
}

func sameItem(a, b interface{}) bool {
	if a == nil || b == nil {
		return a == nil && b == nil
	}
	ta, tb := reflect.TypeOf(a), reflect.TypeOf(b)
	if ta != tb {
		return false
	}
	if ta.Comparable() {
		if a != a { // NaN and the like: not equal to itself
			return b != b
		}
		return a == b
	}
	if !reflect.DeepEqual(a, b) {
		return false
	}
	switch ta.Kind() {
	case reflect.Slice, reflect.Map:
		return reflect.ValueOf(a).Pointer() == reflect.ValueOf(b).Pointer()
	}
	return true
}

func c01Observe(x *X, cell *tabular.Cell, want string, item interface{}, tags []string, when, desc string) {
	x.Clause("C01.text")
	if got := cell.String(); got != want {
		x.Fail("C01.text", tags, "%s: cell text is %q, documented text form is %q; item %s", when, got, want, desc)
	}
	x.Clause("C01.empty")
	if cell.Empty() != (want == "") {
		x.Fail("C01.empty", tags, "%s: Empty()=%v but text is %q; item %s", when, cell.Empty(), want, desc)
	}
	x.Clause("C01.item")
	if !sameItem(cell.Item(), item) {
		x.Fail("C01.item", tags, "%s: Item() returned %#v, stored %#v; item %s", when, cell.Item(), item, desc)
	}
	x.Clause("C01.lines")
	if got, w := strings.Join(cell.Lines(), "\x00"), strings.Join(length.Lines(want), "\x00"); got != w {
		x.Fail("C01.lines", tags, "%s: Lines()=%q, want the lines of %q; item %s", when, cell.Lines(), want, desc)
	}
}

// c01Renderers: the same text is what CSV, HTML and the text table show for a one-cell table.
func c01Renderers(x *X, item interface{}, want string, tags []string, desc string) {
	x.Clause("C01.renderers")
	ct := csv.New()
	ct.AddRowItems(item)
	if out, err := ct.Render(); err != nil {
		x.Fail("C01.renderers", tags, "csv render of a one-cell table failed: %v; item %s", err, desc)
	} else if recs, perr := parseCSVStrict(out); perr != nil || len(recs) != 1 || len(recs[0]) != 1 || recs[0][0] != want {
		x.Fail("C01.renderers", tags, "csv shows %q, text form is %q; item %s", out, want, desc)
	}
	if !strings.ContainsAny(want, "\x00\xff") {
		ht := thtml.New()
		ht.AddRowItems(item)
		if out, err := ht.Render(); err != nil {
			x.Fail("C01.renderers", tags, "html render failed: %v; item %s", err, desc)
		} else {
			i, j := strings.Index(out, "<td>"), strings.Index(out, "</td>")
			if i < 0 || j < i || html.UnescapeString(out[i+4:j]) != want {
				x.Fail("C01.renderers", tags, "html shows %q, text form is %q; item %s", out, want, desc)
			}
		}
	}
	if _, isH := item.(tabular.Heighter); isH {
		return
	}
	if _, isW := item.(tabular.TerminalCellWidther); isW {
		return
	}
	tt := texttable.New()
	tt.AddRowItems(item)
	tt.SetDecorationNamed("ascii-simple")
	out, err := tt.Render()
	if err != nil {
		x.Fail("C01.renderers", tags, "text render failed: %v; item %s", err, desc)
		return
	}
	ol := strings.Split(strings.TrimSuffix(out, "\n"), "\n")
	wl := length.Lines(want)
	if len(wl) == 0 {
		wl = []string{""}
	}
	if len(ol) != len(wl)+2 {
		x.Fail("C01.renderers", tags, "text table shows %d content lines, text form %q has %d; item %s\n%s", len(ol)-2, want, len(wl), desc, out)
		return
	}
	for i, l := range wl {
		got := strings.TrimSuffix(strings.TrimPrefix(ol[i+1], "| "), " |")
		if strings.TrimRight(got, " ") != strings.TrimRight(l, " ") || !strings.HasPrefix(got, l) {
			x.Fail("C01.renderers", tags, "text table line %d shows %q, text line is %q; item %s\n%s", i, got, l, desc, out)
			return
		}
	}
}

type plainItem struct {
	name string
	mk   func() interface{}
	want func(item interface{}) string
	tags []string
}

type fmtErr struct{ v string }

func (e fmtErr) Error() string { return "Error() of " + e.v }
func (e fmtErr) Format(f fmt.State, verb rune) { fmt.Fprint(f, "Format() output") }

type fmtStr struct{ v string }

func (e fmtStr) String() string { return "String() of " + e.v }
func (e fmtStr) Format(f fmt.State, verb rune) { fmt.Fprint(f, "Format() output") }

type fmtGo struct{ v string }

func (e fmtGo) GoString() string { return "GoString() of " + e.v }
func (e fmtGo) Format(f fmt.State, verb rune) { fmt.Fprint(f, "Format() output") }

type namedS string

func (n namedS) String() string { return "String() of " + string(n) }

type namedEmpty string

func (n namedEmpty) String() string { return "" }

type namedG string

func (n namedG) GoString() string { return "GoString() of " + string(n) }

type namedE string

func (n namedE) Error() string { return "Error() of " + string(n) }

type namedPlain string

type namedInt int

func (n namedInt) String() string { return "seven" }

type namedRune rune

func (n namedRune) String() string { return "rune-" + string(rune(n)) }

type nilSafeS struct{ v string }

func (p *nilSafeS) String() string {
	if p == nil {
		return "nil-safe String"
	}
	return p.v
}

type nilSafeEmpty struct{ v string }

func (p *nilSafeEmpty) String() string {
	if p == nil {
		return ""
	}
	return p.v
}

type nilSafeG struct{ v string }

func (p *nilSafeG) GoString() string {
	if p == nil {
		return "nil-safe GoString"
	}
	return p.v
}

type nilSafeE struct{ v string }

func (p *nilSafeE) Error() string {
	if p == nil {
		return "nil-safe Error"
	}
	return p.v
}

type noMethods struct {
	A int
	B string
}

type myErr struct{ s string }

func (e myErr) Error() string { return e.s }

func runC01(x *X) {
	pool := []string{"", "x", "a\nb", "x\n"}
	if x.Thorough() {
		pool = []string{"", "x", "a\nb", "x\n", "\n", "ｗ"}
	}
	runC01Neighbours(x)
	runC01BigTable(x)
	x.Explore("interfaces", ExploreOpts{ShardDepth: 2, Bound: fmt.Sprintf("32 types x value|pointer x %d^k method texts x sizes x 4 paths, with mutation for pointers", len(pool))}, func(c *Chooser) {
		mask := c.Choose(32)
		ptr := c.Bool()
		path := c.Choose(len(c01Paths))
		// distinct defaults so that a wrong arm is visible
		f := ItemF{S: "S-default", G: "G-default", E: "E-default", H: 1, W: 1}
		if mask&mS != 0 {
			f.S = pool[c.Choose(len(pool))]
			if f.S != "" {
				f.S = "S:" + f.S
			}
		}
		if mask&mG != 0 {
			f.G = pool[c.Choose(len(pool))]
			if f.G != "" {
				f.G = "G:" + f.G
			}
		}
		if mask&mE != 0 {
			f.E = pool[c.Choose(len(pool))]
			if f.E != "" {
				f.E = "E:" + f.E
			}
		}
		if mask&mH != 0 {
			f.H = []int{0, 5}[c.Choose(2)]
		}
		if mask&mW != 0 {
			f.W = []int{0, 7}[c.Choose(2)]
		}
		item, setF := mkItem(mask, ptr, f)
		desc := fmt.Sprintf("%T%+v ptr=%v via %s", item, f, ptr, c01Paths[path])
		c.Logf("item %s", desc)
		x.Transition(1)
		if mask != 0 {
			x.Nontrivial(desc)
		}
		x.State(fmt.Sprint(mask, ptr, path))
		tags := []string{"path:" + c01Paths[path]}
		if mask&mS == 0 && mask&mG != 0 {
			tags = append(tags, "gostring_without_string")
		}
		if mask&(mS|mG) == 0 && mask&mE != 0 {
			tags = append(tags, "error_only")
		}
		if mask&(mH|mW) != 0 {
			tags = append(tags, "size_override")
		}
		if ptr {
			tags = append(tags, "pointer_item")
		}
		want := refText(mask, f, item)
		var cell *tabular.Cell
		var table tabular.Table
		if p, val, site := Safe(func() { cell, table = c01StoreIn(path, item) }); p {
			x.FailSite("C01.no_panic", append(tags, "panic"), site, "storing the item panicked: %v; item %s", val, desc)
			return
		}
		c01Observe(x, cell, want, item, tags, "after storing", desc)
		x.Outcome(want)
		if path == 0 {
			c01Renderers(x, item, want, tags, desc)
		}
		if setF == nil {
			return
		}
		// mutate the item behind the cell's back
		g := ItemF{S: f.S + "'", G: f.G + "'", E: f.E + "'", H: f.H + 1, W: f.W + 1}
		if c.Bool() {
			g = ItemF{H: f.H, W: f.W} // mutate to empty texts
		}
		setF(g)
		c.Logf("mutate item to %+v", g)
		x.Clause("C01.stale_until_update")
		c01Observe(x, cell, want, item, append(tags, "after_mutation_before_update"), "after mutating the item, before Update", desc)
		if table != nil {
			// rendering the table (any renderer) is not a request to update either
			for _, tg := range baseTargets() {
				Safe(func() { tg.Render(table) })
			}
			c.Logf("render the table with every renderer")
			c01Observe(x, cell, want, item, append(tags, "after_mutation_before_update", "after_rendering_the_table"), "after mutating the item and rendering its table with every renderer, before Update", desc)
		}
		cell.Update()
		c.Logf("cell.Update()")
		want2 := refText(mask, g, item)
		c01Observe(x, cell, want2, item, append(tags, "after_update"), "after Update", desc)
		cell.Update()
		c01Observe(x, cell, want2, item, append(tags, "after_second_update"), "after a second Update", desc)
		x.Transition(3)
	})

	sp := func(s string) func(interface{}) string { return func(interface{}) string { return s } }
	pv := func(it interface{}) string { return fmt.Sprintf("%v", it) }
	base := []plainItem{
		{"nil", func() interface{} { return nil }, sp(""), []string{"nil_item"}},
		{`""`, func() interface{} { return "" }, sp(""), nil},
		{`"x"`, func() interface{} { return "x" }, sp("x"), nil},
		{`"a\nb"`, func() interface{} { return "a\nb" }, sp("a\nb"), nil},
		{`"x\n"`, func() interface{} { return "x\n" }, sp("x\n"), nil},
		{`"ｗ"`, func() interface{} { return "ｗ" }, sp("ｗ"), nil},
		{"rune 'x'", func() interface{} { return 'x' }, sp("x"), []string{"item_is_rune"}},
		{"rune 'é'", func() interface{} { return 'é' }, sp("é"), []string{"item_is_rune"}},
		{"rune '世'", func() interface{} { return '世' }, sp("世"), []string{"item_is_rune"}},
		{"rune 0", func() interface{} { return rune(0) }, sp("\x00"), []string{"item_is_rune"}},
		{"rune LF", func() interface{} { return '\n' }, sp("\n"), []string{"item_is_rune"}},
		{"int32(65)", func() interface{} { return int32(65) }, sp("A"), []string{"item_is_rune"}},
		{"int 42", func() interface{} { return 42 }, pv, nil},
		{"int 0", func() interface{} { return 0 }, pv, nil},
		{"int64", func() interface{} { return int64(-7) }, pv, nil},
		{"uint8", func() interface{} { return uint8(65) }, pv, nil},
		{"float64", func() interface{} { return 1.5 }, pv, nil},
		{"float64 +0", func() interface{} { return 0.0 }, pv, nil},
		{"float64 -0", func() interface{} { return math.Copysign(0, -1) }, pv, []string{"signed_zero"}},
		{"float32 +0", func() interface{} { return float32(0) }, pv, nil},
		{"float32 -0", func() interface{} { return float32(math.Copysign(0, -1)) }, pv, []string{"signed_zero"}},
		{"NaN", func() interface{} { return math.NaN() }, pv, nil},
		{"+Inf", func() interface{} { return math.Inf(1) }, pv, nil},
		{"MaxInt64", func() interface{} { return int64(math.MaxInt64) }, pv, nil},
		{"MinInt64", func() interface{} { return int64(math.MinInt64) }, pv, nil},
		{"MaxUint64", func() interface{} { return uint64(math.MaxUint64) }, pv, nil},
		{"int 0 again", func() interface{} { return 0 }, pv, nil},
		{"uint 0", func() interface{} { return uint(0) }, pv, nil},
		{"complex", func() interface{} { return complex(1, -2) }, pv, nil},
		{"1e21", func() interface{} { return 1e21 }, pv, nil},
		{"0.1+0.2", func() interface{} { return 0.1 + 0.2 }, pv, nil},
		{"long string 300", func() interface{} { return strings.Repeat("x", 300) }, sp(strings.Repeat("x", 300)), nil},
		{"string of 40 lines", func() interface{} { return strings.Repeat("l\n", 40) }, sp(strings.Repeat("l\n", 40)), nil},
		{"bool", func() interface{} { return true }, pv, nil},
		{"[]int", func() interface{} { return []int{1, 2} }, pv, nil},
		{"[]string{}", func() interface{} { return []string{} }, pv, nil},
		{"map", func() interface{} { return map[string]int{"a": 1} }, pv, nil},
		{"struct without methods", func() interface{} { return noMethods{1, "b"} }, pv, nil},
		{"*struct without methods", func() interface{} { return &noMethods{1, "b"} }, pv, nil},
		{"error value", func() interface{} { return myErr{"boom"} }, sp("boom"), nil},
		{"error with empty text", func() interface{} { return myErr{""} }, sp(""), nil},
		{"[]byte", func() interface{} { return []byte("hi") }, pv, nil},
		{"struct{}", func() interface{} { return struct{}{} }, pv, nil},
		// typed nil pointers: still items of their type; the ladder applies to the methods the type has (here: nil-safe ones)
		{"(*T)(nil), T has a nil-safe String", func() interface{} { return (*nilSafeS)(nil) }, sp("nil-safe String"), []string{"typed_nil_pointer"}},
		{"(*T)(nil), nil-safe String returning \"\"", func() interface{} { return (*nilSafeEmpty)(nil) }, sp(""), []string{"typed_nil_pointer"}},
		{"(*T)(nil), T has a nil-safe GoString only", func() interface{} { return (*nilSafeG)(nil) }, sp("nil-safe GoString"), []string{"typed_nil_pointer"}},
		{"(*T)(nil), T has a nil-safe Error only", func() interface{} { return (*nilSafeE)(nil) }, sp("nil-safe Error"), []string{"typed_nil_pointer"}},
		{"(*T)(nil), T has no methods", func() interface{} { return (*noMethods)(nil) }, pv, []string{"typed_nil_pointer"}},
		// named string types with methods: the ladder looks at the methods, not at the underlying kind
		{"named string with String()", func() interface{} { return namedS("raw-value") }, sp("String() of raw-value"), []string{"named_string_type"}},
		{"named string with String() returning \"\"", func() interface{} { return namedEmpty("raw-value") }, sp(""), []string{"named_string_type"}},
		{"named string with GoString() only", func() interface{} { return namedG("raw-value") }, sp("GoString() of raw-value"), []string{"named_string_type"}},
		{"named string with Error() only", func() interface{} { return namedE("raw-value") }, sp("Error() of raw-value"), []string{"named_string_type"}},
		{"named string without methods", func() interface{} { return namedPlain("raw-value") }, sp("raw-value"), []string{"named_string_type"}},
		{"named int with String()", func() interface{} { return namedInt(7) }, sp("seven"), nil},
		{"named rune type with String()", func() interface{} { return namedRune('x') }, sp("rune-x"), nil},
		// types that ALSO implement fmt.Formatter: the ladder still decides (fmt's %v would call Format instead)
		{"error that is also a fmt.Formatter", func() interface{} { return fmtErr{"boom"} }, sp("Error() of boom"), []string{"also_a_formatter"}},
		{"error+Formatter with empty Error()", func() interface{} { return fmtErr{""} }, sp("Error() of "), []string{"also_a_formatter"}},
		{"Stringer that is also a fmt.Formatter", func() interface{} { return fmtStr{"s"} }, sp("String() of s"), []string{"also_a_formatter"}},
		{"GoStringer that is also a fmt.Formatter", func() interface{} { return fmtGo{"g"} }, sp("GoString() of g"), []string{"also_a_formatter"}},
		{"nil map", func() interface{} { return map[string]int(nil) }, pv, nil},
		{"nil slice", func() interface{} { return []int(nil) }, pv, nil},
		{"nil func", func() interface{} { return (func())(nil) }, pv, nil},
	}
	var plain []plainItem
	plain = append(plain, base...)
	for _, b := range base {
		b := b
		if b.name == "NaN" {
			continue // reflect.DeepEqual cannot confirm the identity of a struct holding NaN
		}
		plain = append(plain, plainItem{"Cell(" + b.name + ")", func() interface{} { return tabular.NewCell(b.mk()) }, func(interface{}) string { return b.want(b.mk()) }, append([]string{"nested_cell"}, b.tags...)})
		plain = append(plain, plainItem{"Cell(Cell(" + b.name + "))", func() interface{} { return tabular.NewCell(tabular.NewCell(b.mk())) }, func(interface{}) string { return b.want(b.mk()) }, append([]string{"nested_cell"}, b.tags...)})
		plain = append(plain, plainItem{"*Cell(" + b.name + ")", func() interface{} { c := tabular.NewCell(b.mk()); return &c }, func(interface{}) string { return b.want(b.mk()) }, append([]string{"nested_cell", "pointer_to_cell"}, b.tags...)})
	}
	x.Explore("plain", ExploreOpts{ShardDepth: 2, Bound: fmt.Sprintf("%d plain items (incl. nested cells depth 1-2 and *Cell) x 4 paths", len(plain))}, func(c *Chooser) {
		p := plain[c.Choose(len(plain))]
		path := c.Choose(len(c01Paths))
		item := p.mk()
		want := p.want(item)
		desc := p.name + " via " + c01Paths[path]
		c.Logf("item %s", desc)
		x.Transition(1)
		if _, isStr := item.(string); !isStr {
			x.Nontrivial(desc)
		}
		tags := append([]string{"path:" + c01Paths[path]}, p.tags...)
		var cell *tabular.Cell
		if pn, val, site := Safe(func() { cell = c01Store(path, item) }); pn {
			x.FailSite("C01.no_panic", append(tags, "panic"), site, "storing the item panicked: %v; item %s", val, desc)
			return
		}
		c01Observe(x, cell, want, item, tags, "after storing", desc)
		cell.Update()
		c01Observe(x, cell, want, item, tags, "after Update of an unchanged item", desc)
		x.Outcome(want)
		if path == 0 {
			c01Renderers(x, item, want, tags, desc)
		}
	})
}
