package main

// C03, family "update-from-precell-callback": items are changed WITHOUT Update; a user callback registered at
// pre-cell render time calls Update on the cells it is handed.  The rendered table must be a consistent rectangle
// of what the cells show after that callback (measurement and emission must look at the same text).

import (
	"fmt"

	"go.pennock.tech/tabular"
	"go.pennock.tech/tabular/texttable"
)

type c03Updater struct{ n int }

func (u *c03Updater) UpdateProperties(po tabular.PropertyOwner) error {
	if cp, ok := po.(*tabular.Cell); ok {
		u.n++
		cp.Update()
	}
	return nil
}

func runC03UpdateFromCallback(x *X) { runUpdateFromCallback(x, "C03") }

func runUpdateFromCallback(x *X, prop string) {
	newTexts := []string{"much-wider-than-before", "n", "two\nlines-now", ""}
	x.Explore("update-from-precell-callback", ExploreOpts{ShardDepth: 2, Bound: "3 pointer items changed to {wider, narrower, two-line, empty} without Update x an updating pre-cell CELL callback on {table, column 1, row 1} registered before or after the wrapper exists x 2 decorations x 1-2 renders"}, func(c *Chooser) {
		owner := c.Choose(3)
		regFirst := c.Bool()
		dc := []DecorChoice{namedDecor("ascii-simple"), namedDecor("utf8-light")}[c.Choose(2)]
		t := tabular.New()
		t.AddHeaders("h1", "h2")
		type pc struct {
			set  func(ItemF)
			r, k int
		}
		var ptrs []pc
		mk := func(text string, r, k int) interface{} {
			it, set := mkItem(mS, true, ItemF{S: text})
			ptrs = append(ptrs, pc{set, r, k})
			return it
		}
		t.AddRowItems(mk("aa", 0, 0), mk("bbb", 0, 1))
		t.AddRowItems(mk("c", 1, 0), "plain")
		tg := &TGrid{HasHeader: true, Header: []TCell{{Text: "h1"}, {Text: "h2"}}, Rows: []TRow{{Cells: []TCell{{Text: "aa"}, {Text: "bbb"}}}, {Cells: []TCell{{Text: "c"}, {Text: "plain"}}}}}
		upd := &c03Updater{}
		reg := func(tb tabular.Table) {
			var po tabular.PropertyOwner = tb
			switch owner {
			case 1:
				po = t.Column(1)
			case 2:
				po = t.AllRows()[0]
			}
			if err := registerCB(tb, po, 1, 1, upd); err != nil {
				panic("harness: registering PRECELL/CELL: " + err.Error())
			}
		}
		if regFirst {
			reg(t)
		}
		tt := texttable.Wrap(t)
		if err := dc.Apply(tt); err != nil {
			panic("harness: " + err.Error())
		}
		if !regFirst {
			reg(tt)
		}
		covered := func(r, k int) bool {
			switch owner {
			case 1:
				return k == 0
			case 2:
				return r == 0
			}
			return true
		}
		renders := 1 + c.Choose(2)
		c.Logf("updating pre-cell callback on %s (registered %s Wrap); decoration %s", []string{"the table", "column 1", "row 1"}[owner], map[bool]string{true: "before", false: "after"}[regFirst], dc.Name)
		for pass := 0; pass < renders; pass++ {
			for i, p := range ptrs {
				nt := newTexts[c.Choose(len(newTexts))]
				p.set(ItemF{S: nt})
				if covered(p.r, p.k) {
					tg.Rows[p.r].Cells[p.k].Text = nt
				}
				c.Logf("item %d changed to %q without Update", i+1, nt)
			}
			x.Transition(1)
			var out string
			var err error
			if pn, val, site := Safe(func() { out, err = tt.Render() }); pn {
				x.FailSite(prop+".no_panic", []string{"update_from_callback", "panic"}, site, "render panicked: %v", val)
				return
			}
			judgeTextTable(x, prop, tg, dc, []string{"update_from_precell_callback", "user_callback_updates_cells_during_the_pass"}, out, err)
		}
		x.State(fmt.Sprint(owner, regFirst, dc.Name, tg.String()))
		x.Nontrivial(fmt.Sprint(c.path))
	})
}
