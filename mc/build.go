package main

// Table-building alphabet shared by the sequence explorers (C02, C09, C10, C11, C14),
// applied in lock-step to the real table and to a boring reference model.

import (
	"fmt"
	"strings"

	"go.pennock.tech/tabular"
)

type RefRow struct {
	Sep      bool
	Cells    []string // texts
	Ptr      *tabular.Row
	Attached bool
	PostAdd  bool // a cell was added after the row was attached
}

type ItemGen func(c *Chooser, b *Builder, op string, n int) (items []interface{}, texts []string, desc string)

type BuildCfg struct {
	Counts           []int // cell counts offered for AddHeaders / AddRowItems
	HeaderCounts     []int // if nil, Counts
	MaxDetached      int
	AllowSepAdd      bool
	AllowMutateCopy  bool
	AllowNewRowSized bool
	NoAppendNewRow   bool
	NoDetached       bool
	NoSeparator      bool
	NoRowAdd         bool
	Items            ItemGen
	New              func() tabular.Table
}

type Builder struct {
	Cfg       *BuildCfg
	T         tabular.Table
	HasHeader bool
	Header    []string
	Rows      []*RefRow
	Detached  []*RefRow
	MaxEver   int // largest cell count ever attached (header or row)
	serial    int
	Steps     int
	// shape predicates (tags for findings)
	HeaderReplaced bool
	CurDetached    *RefRow  // set while Row.Add runs on a detached row
	SepAdds        int      // number of cells "added" to separator rows (each is a misuse error)
	ItemTags       []string // tags contributed by the item generator (set semantics)
	Fills          []string // per op, which pool item was used (part of the state key)
}

func (b *Builder) AddItemTag(t string) {
	for _, e := range b.ItemTags {
		if e == t {
			return
		}
	}
	b.ItemTags = append(b.ItemTags, t)
}

func NewBuilder(cfg *BuildCfg) *Builder {
	b := &Builder{Cfg: cfg}
	if cfg.New != nil {
		b.T = cfg.New()
	} else {
		b.T = tabular.New()
	}
	return b
}

// SerialItems gives every cell a unique text.
func SerialItems(c *Chooser, b *Builder, op string, n int) ([]interface{}, []string, string) {
	items := make([]interface{}, n)
	texts := make([]string, n)
	for i := range items {
		b.serial++
		texts[i] = fmt.Sprintf("c%d", b.serial)
		items[i] = texts[i]
	}
	return items, texts, fmt.Sprint(n)
}

type buildOp struct {
	name string
	do   func(c *Chooser)
}

// NCols per the statement: the largest number of cells in the header or in any
// attached row, including cells appended after attach.
func (b *Builder) NCols() int {
	n := 0
	if b.HasHeader {
		n = len(b.Header)
	}
	for _, r := range b.Rows {
		if len(r.Cells) > n {
			n = len(r.Cells)
		}
	}
	return n
}

func (b *Builder) bump(n int) {
	if n > b.MaxEver {
		b.MaxEver = n
	}
}

func (b *Builder) ops() []buildOp {
	cfg := b.Cfg
	var ops []buildOp
	gen := cfg.Items
	if gen == nil {
		gen = SerialItems
	}
	hc := cfg.HeaderCounts
	if hc == nil {
		hc = cfg.Counts
	}
	for _, n := range hc {
		n := n
		ops = append(ops, buildOp{fmt.Sprintf("AddHeaders/%d", n), func(c *Chooser) {
			items, texts, d := gen(c, b, "AddHeaders", n)
			c.Logf("t.AddHeaders(%s)", d)
			b.T.AddHeaders(items...)
			if b.HasHeader {
				b.HeaderReplaced = true
			}
			b.HasHeader, b.Header = true, texts
			b.bump(n)
		}})
	}
	for _, n := range cfg.Counts {
		n := n
		ops = append(ops, buildOp{fmt.Sprintf("AddRowItems/%d", n), func(c *Chooser) {
			items, texts, d := gen(c, b, "AddRowItems", n)
			c.Logf("t.AddRowItems(%s)", d)
			b.T.AddRowItems(items...)
			r := &RefRow{Cells: texts, Attached: true}
			b.Rows = append(b.Rows, r)
			if rr := b.T.AllRows(); len(rr) > 0 {
				r.Ptr = rr[len(rr)-1]
			}
			b.bump(n)
		}})
	}
	if !cfg.NoSeparator {
		ops = append(ops, buildOp{"AddSeparator", func(c *Chooser) {
			c.Logf("t.AddSeparator()")
			b.T.AddSeparator()
			r := &RefRow{Sep: true, Attached: true}
			b.Rows = append(b.Rows, r)
			if rr := b.T.AllRows(); len(rr) > 0 {
				r.Ptr = rr[len(rr)-1]
			}
		}})
	}
	if !cfg.NoAppendNewRow {
		ops = append(ops, buildOp{"AppendNewRow", func(c *Chooser) {
			c.Logf("r%d := t.AppendNewRow()", len(b.Rows)+1)
			p := b.T.AppendNewRow()
			b.Rows = append(b.Rows, &RefRow{Cells: []string{}, Attached: true, Ptr: p})
		}})
	}
	if !cfg.NoDetached && len(b.Detached) < cfg.MaxDetached {
		ops = append(ops, buildOp{"NewRow", func(c *Chooser) {
			c.Logf("d%d := tabular.NewRow()", len(b.Detached))
			b.Detached = append(b.Detached, &RefRow{Cells: []string{}, Ptr: tabular.NewRow()})
		}})
		if cfg.AllowNewRowSized {
			ops = append(ops, buildOp{"NewRowSizedFor", func(c *Chooser) {
				c.Logf("d%d := t.NewRowSizedFor()", len(b.Detached))
				b.Detached = append(b.Detached, &RefRow{Cells: []string{}, Ptr: b.T.NewRowSizedFor()})
			}})
		}
	}
	for i := range b.Detached {
		i := i
		ops = append(ops, buildOp{"AddRow(detached)", func(c *Chooser) {
			r := b.Detached[i]
			c.Logf("t.AddRow(d%d)  // %d cells", i, len(r.Cells))
			b.T.AddRow(r.Ptr)
			b.Detached = append(b.Detached[:i:i], b.Detached[i+1:]...)
			r.Attached = true
			b.Rows = append(b.Rows, r)
			b.bump(len(r.Cells))
		}})
		if !cfg.NoRowAdd {
			ops = append(ops, buildOp{"detached.Add", func(c *Chooser) {
				r := b.Detached[i]
				items, texts, d := gen(c, b, "Row.Add", 1)
				c.Logf("d%d.Add(NewCell(%s))", i, d)
				b.CurDetached = r
				r.Ptr.Add(tabular.NewCell(items[0]))
				b.CurDetached = nil
				r.Cells = append(r.Cells, texts[0])
			}})
		}
	}
	if !cfg.NoRowAdd {
		for i, r := range b.Rows {
			i, r := i, r
			if r.Sep {
				if cfg.AllowSepAdd {
					ops = append(ops, buildOp{"separator.Add", func(c *Chooser) {
						items, _, d := gen(c, b, "Row.Add", 1)
						c.Logf("t.AllRows()[%d].Add(NewCell(%s))  // separator row", i, d)
						b.T.AllRows()[i].Add(tabular.NewCell(items[0]))
						b.SepAdds++
					}})
				}
				continue
			}
			ops = append(ops, buildOp{"attached.Add", func(c *Chooser) {
				items, texts, d := gen(c, b, "Row.Add", 1)
				c.Logf("t.AllRows()[%d].Add(NewCell(%s))  // row already attached", i, d)
				r.Ptr.Add(tabular.NewCell(items[0]))
				r.Cells = append(r.Cells, texts[0])
				r.PostAdd = true
				b.bump(len(r.Cells))
			}})
		}
	}
	if cfg.AllowMutateCopy && len(b.Rows) > 0 {
		ops = append(ops, buildOp{"mutateAllRowsCopy", func(c *Chooser) {
			c.Logf("rr := t.AllRows(); reverse(rr); rr[0] = nil; rr = rr[:0]")
			rr := b.T.AllRows()
			for i, j := 0, len(rr)-1; i < j; i, j = i+1, j-1 {
				rr[i], rr[j] = rr[j], rr[i]
			}
			if len(rr) > 0 {
				rr[0] = nil
			}
			_ = rr[:0]
		}})
	}
	return ops
}

// Step lets the chooser pick the next operation (choice 0 = stop when allowStop).
// It returns the op name, or "" when stopped.
func (b *Builder) Step(c *Chooser, allowStop bool) string {
	ops := b.ops()
	off := 0
	if allowStop {
		off = 1
	}
	k := c.Choose(len(ops) + off)
	if allowStop && k == 0 {
		return ""
	}
	op := ops[k-off]
	op.do(c)
	b.Steps++
	return op.name
}

// Tags computes shape predicates of the current table (triggers for known findings).
func (b *Builder) Tags() []string {
	var t []string
	add := func(s string) { t = append(t, s) }
	zero, ragged, post, sep := false, false, false, false
	n := b.NCols()
	for _, r := range b.Rows {
		if r.Sep {
			sep = true
			continue
		}
		if len(r.Cells) == 0 {
			zero = true
		}
		if len(r.Cells) < n {
			ragged = true
		}
		if r.PostAdd {
			post = true
		}
	}
	if zero {
		add("row_with_zero_cells")
	}
	if ragged {
		add("ragged_rows")
	}
	if post {
		add("cell_added_after_attach")
	}
	if sep {
		add("has_separator")
	}
	if b.HasHeader && len(b.Header) == 0 {
		add("header_with_zero_cells")
	}
	if b.HasHeader && len(b.Header) < n {
		add("header_shorter_than_rows")
	}
	if !b.HasHeader {
		add("no_header")
	}
	if len(b.Rows) == 0 {
		add("no_rows")
	}
	if n == 0 {
		add("no_columns")
	}
	if n >= 10 {
		add("ten_or_more_columns")
	}
	if b.HeaderReplaced {
		add("header_replaced")
	}
	t = append(t, b.ItemTags...)
	return t
}

// Key is a canonical description of the reference state.
func (b *Builder) Key() string {
	var sb strings.Builder
	if b.HasHeader {
		fmt.Fprintf(&sb, "H%d", len(b.Header))
	} else {
		sb.WriteString("H-")
	}
	for _, r := range b.Rows {
		if r.Sep {
			sb.WriteString("|S")
		} else {
			fmt.Fprintf(&sb, "|%d", len(r.Cells))
			if r.PostAdd {
				sb.WriteString("+")
			}
		}
	}
	for _, r := range b.Detached {
		fmt.Fprintf(&sb, "/d%d", len(r.Cells))
	}
	if len(b.Fills) > 0 {
		fmt.Fprintf(&sb, " fills=%v", b.Fills)
	}
	return sb.String()
}

// KeyTexts also includes the texts.
func (b *Builder) KeyTexts() string {
	var sb strings.Builder
	if b.HasHeader {
		fmt.Fprintf(&sb, "H%q", b.Header)
	} else {
		sb.WriteString("H-")
	}
	for _, r := range b.Rows {
		if r.Sep {
			sb.WriteString("|S")
		} else {
			fmt.Fprintf(&sb, "|%q", r.Cells)
		}
	}
	return sb.String()
}
