//go:build !verifsch

package main

import (
	"encoding/json"
	"fmt"
	"os"
	"os/exec"
	"path/filepath"
	"strings"
	"time"
)

// The scheduler checks are compiled only into the overlay-instrumented variant of the harness
// (build tag verifsch, see overlay.go and sch.go); this build merely knows that they exist and
// runs the separate, free-running -race pass (supporting evidence) after the exhaustive exploration.
const builtWithOverlay = false

func init() {
	register(&Check{ID: "C16", Level: "model_checking", Overlay: true, QuickBudget: 240 * time.Second, ThoroughBudget: 40 * time.Minute, Extra: racePassExtra("C16")})
	register(&Check{ID: "C17", Level: "model_checking", Overlay: true, QuickBudget: 180 * time.Second, ThoroughBudget: 30 * time.Minute, Extra: racePassExtra("C17")})
}

func racePassExtra(id string) func(tier string, cov map[string]interface{}) []Violation {
	return func(tier string, cov map[string]interface{}) []Violation {
		work := filepath.Join(outRoot(), ".work", fmt.Sprintf("race-%s-%d", id, os.Getpid()))
		os.MkdirAll(work, 0o755)
		defer os.RemoveAll(work)
		exe, _, err := buildOverlayBinary(work, true)
		if err != nil {
			// the race-enabled build is supporting evidence only; its absence is recorded, not fatal
			cov["race_pass"] = "not run: " + firstLines(err.Error(), 3)
			return nil
		}
		iters := "20"
		if tier == "thorough" {
			iters = "300"
		}
		cmd := exec.Command(exe, "racepass", "--iters", iters)
		cmd.Env = append(workerEnv(nil), "GOMAXPROCS=16", "GORACE=halt_on_error=1 exitcode=66")
		out, rerr := cmd.CombinedOutput()
		s := string(out)
		cov["race_pass"] = map[string]interface{}{"what": "separate free-running run of the same thread bodies under go's race detector (sampling: supporting evidence, not the deciding step)",
			"iterations": iters, "goroutines_per_iteration": 16, "result": lastLine(s)}
		if rerr == nil {
			return nil
		}
		clause := id + ".race_free"
		if !strings.Contains(s, "DATA RACE") {
			clause = id + ".equal_alone"
		}
		f := filepath.Join(outRoot(), ".out", id, id+"-racepass.replay.json")
		v := Violation{Property: id, Family: "fatal", Tier: tier, Clause: clause, Tags: []string{"free_running_race_pass"}, Detail: "free-running -race pass failed (" + rerr.Error() + "):\n" + firstLines(s, 60), File: f}
		b, _ := json.MarshalIndent(v, "", " ")
		os.WriteFile(f, b, 0o644)
		return []Violation{v}
	}
}

func lastLine(s string) string {
	l := strings.Split(strings.TrimSpace(s), "\n")
	return l[len(l)-1]
}
