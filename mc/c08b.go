package main

// C08, family "non-string-items": the cell text that must be neutralised is whatever the cell SHOWS, also when it
// does not come from a string item (a rune that is a pipe or an angle bracket, a Stringer or an error whose text is
// hostile, a slice whose %v form contains brackets and quotes).

import (
	"fmt"

	"go.pennock.tech/tabular"
	"go.pennock.tech/tabular/markdown"
	"go.pennock.tech/tabular/properties/align"
)

type hostileStringer struct{ s string }

func (h hostileStringer) String() string { return h.s }

func runC08Items(x *X) {
	type ic struct {
		name string
		item interface{}
	}
	items := []ic{{"rune |", '|'}, {"rune <", '<'}, {"rune >", '>'}, {"rune &", '&'}, {"rune \"", '"'}, {"rune '", '\''}, {"rune LF", '\n'}, {"rune \\", '\\'}, {"rune a", 'a'},
		{"int", 7}, {"float", -1.5}, {"bool", true}, {"nil", nil}, {"Stringer a|b<c>&\"", hostileStringer{`a|b<c>&"`}}, {"error x|y", myErr{"x|y\nz"}},
		{"[]string with pipes", []string{"a|b", "<c>"}}, {"map", map[string]string{"k|": "<v>"}}, {"named string with String()", namedS("p|q")}, {"Cell(rune |)", tabular.NewCell('|')}, {"byte |", byte('|')}}
	x.Explore("non-string-items", ExploreOpts{ShardDepth: 1, Bound: fmt.Sprintf("%d items that are not strings (hostile runes, numbers, Stringers, errors, slices, maps, nested cells) x header | body position", len(items))}, func(c *Chooser) {
		it := items[c.Choose(len(items))]
		hdr := c.Bool()
		text := tabular.NewCell(it.item).String()
		g := &Grid{HasHeader: true, Header: []string{"h1", "h2"}, Rows: []GridRow{{Cells: []string{"a", "b"}}}}
		t := markdown.New()
		if hdr {
			g.Header[1] = text
			t.AddHeaders("h1", it.item)
			t.AddRowItems("a", "b")
		} else {
			g.Rows[0].Cells[0] = text
			t.AddHeaders("h1", "h2")
			t.AddRowItems(it.item, "b")
		}
		c.Logf("markdown table with item %s (shown as %q) in the %s", it.name, text, map[bool]string{true: "header", false: "body"}[hdr])
		x.Transition(1)
		x.Nontrivial(it.name + fmt.Sprint(hdr))
		tags := append(g.Tags(), "non_string_item")
		var out string
		var err error
		if p, val, site := Safe(func() { out, err = t.Render() }); p {
			x.FailSite("C08.no_panic", append(tags, "panic"), site, "markdown Render panicked: %v with item %s", val, it.name)
			return
		}
		c08Judge(x, &c08Input{g: g}, tags, out, err)
	})
}

// family "wrapper-built-by-hand": MarkdownTable is an exported struct with an exported embedded Table, so a wrapper
// can exist that never went through Wrap/New - a struct literal around a core table, or a wrapper whose Table field
// was pointed at another table afterwards.  Whatever such a wrapper renders must still be neutralised GFM.
func runC08ByHand(x *X) {
	x.Explore("wrapper-built-by-hand", ExploreOpts{ShardDepth: 2, Bound: fmt.Sprintf("{&MarkdownTable{Table: core}, New() with .Table pointed at a core table, Wrap(a) with .Table pointed at b} x %d hostile atoms x header | body position x column alignment unset | right", len(c08Atoms))}, func(c *Chooser) {
		route := c.Choose(3)
		s := c08Atoms[c.Choose(len(c08Atoms))]
		hdr := c.Bool()
		right := c.Bool()
		g := &Grid{HasHeader: true, Header: []string{"h1", "h2"}, Rows: []GridRow{{Cells: []string{"a", "b"}}, {Sep: true}, {Cells: []string{"c"}}}}
		if hdr {
			g.Header[1] = s
		} else {
			g.Rows[0].Cells[0] = s
		}
		core := tabular.New()
		g.Build(core)
		in := &c08Input{g: g}
		if right {
			core.Column(2).SetProperty(align.PropertyType, align.Right)
			in.aligns = []interface{}{nil, nil, align.Right}
		}
		var mt *markdown.MarkdownTable
		switch route {
		case 0:
			mt = &markdown.MarkdownTable{Table: core}
		case 1:
			mt = markdown.New()
			mt.Table = core
		case 2:
			other := tabular.New()
			other.AddHeaders("zz")
			mt = markdown.Wrap(other)
			mt.Table = core
		}
		c.Logf("route %d (0 struct literal, 1 New()+Table=, 2 Wrap(other)+Table=); text %q in the %s; column 2 right-aligned %v", route, s, map[bool]string{true: "header", false: "body"}[hdr], right)
		x.Transition(1)
		x.Nontrivial(fmt.Sprint(route, hdr, right, s))
		tags := append(g.Tags(), "wrapper_not_made_by_Wrap_or_New")
		var out string
		var err error
		if p, val, site := Safe(func() { out, err = mt.Render() }); p {
			x.FailSite("C08.no_panic", append(tags, "panic"), site, "markdown Render panicked: %v", val)
			return
		}
		c08Judge(x, in, tags, out, err)
	})
}
