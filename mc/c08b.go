package main

// C08, family "non-string-items": the cell text that must be neutralised is whatever the cell SHOWS, also when it
// does not come from a string item (a rune that is a pipe or an angle bracket, a Stringer or an error whose text is
// hostile, a slice whose %v form contains brackets and quotes).

import (
	"fmt"

	"go.pennock.tech/tabular"
	"go.pennock.tech/tabular/markdown"
)

type hostileStringer struct{ s string }

func (h hostileStringer) String() string { return h.s }

func runC08Items(x *X) {
	type ic struct {
		name string
		item interface{}
	}
	items := []ic{{"rune |", '|'}, {"rune <", '<'}, {"rune >", '>'}, {"rune &", '&'}, {"rune \"", '"'}, {"rune '", '\''}, {"rune LF", '\n'}, {"rune \\", '\\'}, {"rune a", 'a'},
		{"int", 7}, {"float", -1.5}, {"bool", true}, {"nil", nil}, {"Stringer a|b<c>&\"", hostileStringer{`a|b<c>&"`}}, {"error x|y", myErr{"x|y\nz"}},
		{"[]string with pipes", []string{"a|b", "<c>"}}, {"map", map[string]string{"k|": "<v>"}}, {"named string with String()", namedS("p|q")}, {"Cell(rune |)", tabular.NewCell('|')}, {"byte |", byte('|')}}
	x.Explore("non-string-items", ExploreOpts{ShardDepth: 1, Bound: fmt.Sprintf("%d items that are not strings (hostile runes, numbers, Stringers, errors, slices, maps, nested cells) x header | body position", len(items))}, func(c *Chooser) {
		it := items[c.Choose(len(items))]
		hdr := c.Bool()
		text := tabular.NewCell(it.item).String()
		g := &Grid{HasHeader: true, Header: []string{"h1", "h2"}, Rows: []GridRow{{Cells: []string{"a", "b"}}}}
		t := markdown.New()
		if hdr {
			g.Header[1] = text
			t.AddHeaders("h1", it.item)
			t.AddRowItems("a", "b")
		} else {
			g.Rows[0].Cells[0] = text
			t.AddHeaders("h1", "h2")
			t.AddRowItems(it.item, "b")
		}
		c.Logf("markdown table with item %s (shown as %q) in the %s", it.name, text, map[bool]string{true: "header", false: "body"}[hdr])
		x.Transition(1)
		x.Nontrivial(it.name + fmt.Sprint(hdr))
		tags := append(g.Tags(), "non_string_item")
		var out string
		var err error
		if p, val, site := Safe(func() { out, err = t.Render() }); p {
			x.FailSite("C08.no_panic", append(tags, "panic"), site, "markdown Render panicked: %v with item %s", val, it.name)
			return
		}
		c08Judge(x, &c08Input{g: g}, tags, out, err)
	})
}
