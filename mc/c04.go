package main

import (
	"fmt"
	"go.pennock.tech/tabular"
	"go.pennock.tech/tabular/texttable"
	"strings"
	"time"

	"go.pennock.tech/tabular/properties/align"
	"go.pennock.tech/tabular/texttable/decoration"
)

// C04 — text table shows every cell line in its own slot, aligned as the column asks.

func init() {
	register(&Check{
		ID:        "C04",
		Level:     "exploration",
		Technique: "bounded exhaustive configuration enumeration (every alignment assignment to column 0 and each column; every declared width/height against every text) rendered by the real code and compared slot by slot with a reference renderer transcribed from the statement",
		Rule: "family lifecycle: one table (one item declaring its height, one its width) and one long-lived wrapper, every sequence of <=4 (thorough 5) in-place modifications (items mutated + Update, headers replaced, rows grown, alignment of column 0/1/2 changed), Render and failed RenderTo; family twin-texts: two cells with byte-identical text, one declaring width/height; family alignment: 7 grids (one with DEL/ESC/TAB/wide characters) (<=3 columns, ragged, multi-line, separators, header or not; column contents giving pad 0,1,2,3) x every assignment of {unset,left,right,centre} to column 0 and each column (4^(1+ncols)) x 3 decorations; " +
			"family declared-size: items with text in {X, abc, SGR-escaped X, two-line, empty} x declared width {none,-1,0,1,=text,text+3,300,3000} x declared height {none,-1,0,1,=lines,lines+2,70,1100} x position {header, body first, body last} x column alignment {unset,right,centre}; " +
			"non-trivial = any non-default alignment or any declared size; distinct by (grid, alignments)",
		Assumptions: []string{
			"where the statement is silent the layout is not asserted, only no-panic/success and the declared-height lower bound: negative or zero declared sizes, a declared height below the text's line count, a declared width on a multi-line or empty item",
			"display width is the library's own measure",
		},
		QuickBudget: 120 * time.Second, ThoroughBudget: 20 * time.Minute,
		Run: runC04,
	})
}

func ip(n int) *int { return &n }

func runC04(x *X) {
	runC04FromCallback(x)
	runUpdateFromCallback(x, "C04")
	decors := []DecorChoice{namedDecor(decoration.D_UTF8_HEAVY), namedDecor(decoration.D_ASCII_SIMPLE), namedDecor(decoration.D_NONE)}
	if x.Thorough() {
		decors = nil
		for _, n := range decoration.RegisteredDecorationNames() {
			decors = append(decors, namedDecor(n))
		}
		decors = append(decors, customDecor("custom", customFromMask(7)))
	}
	avals := []interface{}{nil, align.Left, align.Right, align.Center}
	grids := []*Grid{
		{HasHeader: true, Header: []string{"h", "hhhh", "hh"}, Rows: []GridRow{{Cells: []string{"aaaa", "b", "ccccc"}}, {Cells: []string{"d", "ee\nf"}}, {Sep: true}, {Cells: []string{"ggg"}}}},
		{Rows: []GridRow{{Cells: []string{"a", "bbb"}}, {Cells: []string{"cc", "d"}}, {Cells: []string{"", "eeee"}}}},
		{HasHeader: true, Header: []string{"wide header"}, Rows: []GridRow{{Cells: []string{"x"}}, {Cells: []string{"xy\nxyz\n"}}, {Cells: []string{}}}},
		{HasHeader: true, Header: []string{"ｗ", "é"}, Rows: []GridRow{{Cells: []string{"abc", "abcd"}}, {Cells: []string{"ｗｗ", ""}}}},
		{Rows: []GridRow{{Cells: []string{"a"}}, {Cells: []string{"bb"}}, {Cells: []string{"ccc"}}, {Cells: []string{"dddd"}}}},
		{HasHeader: true, Header: []string{"a", "bb", "ccc"}, Rows: nil},
		{HasHeader: true, Header: []string{"wide-header", "h2"}, Rows: []GridRow{{Cells: []string{"a\x7fb", "\x7f"}}, {Cells: []string{"\x1b[1mX", "t\tt"}}, {Cells: []string{"é", "ｗ"}}}},
	}
	x.Explore("alignment", ExploreOpts{ShardDepth: 2, Bound: fmt.Sprintf("%d grids x 4^(1+ncols) alignment assignments x %d decorations", len(grids), len(decors))}, func(c *Chooser) {
		gi := c.Choose(len(grids))
		dc := decors[c.Choose(len(decors))]
		tg := fromGrid(grids[gi])
		n := tg.NCols()
		tg.Aligns = make([]interface{}, n+1)
		nd := false
		for i := range tg.Aligns {
			tg.Aligns[i] = avals[c.Choose(len(avals))]
			if tg.Aligns[i] != nil {
				nd = true
			}
		}
		c.Logf("decoration=%s table=%s", dc.Name, tg)
		x.Transition(n + 1)
		if nd {
			x.Nontrivial(dc.Name + tg.String())
		}
		x.State(fmt.Sprint(gi, tg.Aligns))
		tags := append(grids[gi].Tags(), "decoration:"+dc.Name)
		if tg.Aligns[0] != nil {
			tags = append(tags, "column0_default_set")
		}
		compareTextTable(x, "C04", tg, dc, tags)
	})

	ldepth := x.Pick(4, 5)
	lops := lifeOps(true, false)
	x.Explore("lifecycle", ExploreOpts{ShardDepth: 2, Bound: fmt.Sprintf("one table (one item declaring height, one declaring width) + one long-lived text wrapper: all sequences of <=%d operations over %d in-place modifications/alignment changes, Render, failed RenderTo", ldepth, len(lops))}, func(c *Chooser) {
		dc := decors[1]
		lifecycle(x, c, "C04", ldepth, lops, true, func(t tabular.Table) lifeRenderer {
			tt := texttable.Wrap(t)
			dc.Apply(tt)
			return tt
		}, func(m *lifeModel, tags []string, out string, err error) {
			judgeTextTable(x, "C04", m.tgrid(), dc, append(tags, "decoration:"+dc.Name), out, err)
		})
	})
	// twin texts: two cells with byte-identical (long) text, one of which declares its own size
	twin := []string{"identical-long-text-0123456789", "short", "two\nlines-identical-0123456789"}
	x.Explore("twin-texts", ExploreOpts{ShardDepth: 2, Bound: "3 texts x declared width {none,1,text+3} x declared height {none,lines+2} on one of two cells holding identical text x order x 3 alignments"}, func(c *Chooser) {
		text := twin[c.Choose(len(twin))]
		a := TCell{Text: text}
		tw, nl := a.width(), len(a.lines())
		a.DeclW = []*int{nil, ip(1), ip(tw + 3)}[c.Choose(3)]
		a.DeclH = []*int{nil, ip(nl + 2)}[c.Choose(2)]
		b := TCell{Text: text}
		first := c.Bool()
		al := []interface{}{nil, align.Right, align.Center}[c.Choose(3)]
		dc := decors[c.Choose(len(decors))]
		tg := &TGrid{HasHeader: true, Header: []TCell{{Text: "h1"}, {Text: "a much wider header than any cell below it"}}, Aligns: []interface{}{al}}
		if first {
			tg.Rows = []TRow{{Cells: []TCell{a, b}}, {Cells: []TCell{b, a}}}
		} else {
			tg.Rows = []TRow{{Cells: []TCell{b, a}}, {Cells: []TCell{a, b}}}
		}
		c.Logf("decoration=%s table=%s", dc.Name, tg)
		x.Transition(1)
		x.Nontrivial(dc.Name + tg.String())
		compareTextTable(x, "C04", tg, dc, []string{"twin_texts", "decoration:" + dc.Name})
	})
	// the last three: many bytes per displayed cell (stacked colour sequences around one letter, ten combining marks on
	// one base, a long OSC hyperlink) - an item that declares width 1 for them is exactly what declared widths are for
	texts := []string{"X", "abc", "\x1b[1mX\x1b[0m", "ab\ncde", "",
		"\x1b[38;5;196m\x1b[48;5;21m\x1b[1m\x1b[4mX\x1b[0m", "e" + strings.Repeat("\u0301", 10), "\x1b]8;;https://example.org/a/rather/long/target/address\x1b\\L\x1b]8;;\x1b\\"}
	x.Explore("declared-size", ExploreOpts{ShardDepth: 2, Bound: "8 texts (three with 10-70 bytes per displayed cell) x 8 declared widths x 6 declared heights x 3 positions x 3 alignments x decorations"}, func(c *Chooser) {
		text := texts[c.Choose(len(texts))]
		cell := TCell{Text: text}
		nl := len(cell.lines())
		tw := cell.width()
		wopts := []*int{nil, ip(-1), ip(0), ip(1), ip(tw), ip(tw + 3), ip(300), ip(3000)}
		hopts := []*int{nil, ip(-1), ip(0), ip(1), ip(nl), ip(nl + 2), ip(70), ip(1100)}
		cell.DeclW = wopts[c.Choose(len(wopts))]
		cell.DeclH = hopts[c.Choose(len(hopts))]
		pos := c.Choose(3)
		al := []interface{}{nil, align.Right, align.Center}[c.Choose(3)]
		dc := decors[c.Choose(len(decors))]
		plain := func(s string) TCell { return TCell{Text: s} }
		tg := &TGrid{HasHeader: true, Header: []TCell{plain("hello"), plain("h2")}, Rows: []TRow{{Cells: []TCell{plain("r1"), plain("world")}}, {Cells: []TCell{plain("r2")}}}}
		var tags []string
		switch pos {
		case 0:
			tg.Header[0] = cell
			tg.Aligns = []interface{}{nil, al}
			tags = append(tags, "position:header")
		case 1:
			tg.Rows[0].Cells[0] = cell
			tg.Aligns = []interface{}{nil, al}
			tags = append(tags, "position:body_first")
		case 2:
			tg.Rows[0].Cells[1] = cell
			tg.Aligns = []interface{}{nil, nil, al}
			tags = append(tags, "position:body_last")
		}
		if cell.DeclW != nil && *cell.DeclW != tw {
			tags = append(tags, "declared_width_differs_from_text")
		}
		if cell.DeclH != nil && *cell.DeclH < nl {
			tags = append(tags, "declared_height_below_lines")
		}
		if cell.DeclH != nil && *cell.DeclH > nl {
			tags = append(tags, "declared_height_above_lines")
		}
		c.Logf("decoration=%s table=%s", dc.Name, tg)
		x.Transition(1)
		if cell.DeclW != nil || cell.DeclH != nil {
			x.Nontrivial(dc.Name + tg.String())
		}
		x.State(fmt.Sprint(cell, pos, alignName(al)))
		compareTextTable(x, "C04", tg, dc, append(tags, "decoration:"+dc.Name))
	})
}
