package main

// Generic "lifecycle" exploration shared by the renderer checks: ONE table and ONE long-lived
// wrapper; the table is modified in place between renders (items mutated + Update, headers
// replaced, cells replaced, rows grown, settings changed, a render that fails half-way).  Every
// render is judged by the owning check's full oracle against the model of the table's CURRENT
// content.  It answers a class of changes that only short build-then-render-once sequences cannot
// reach: anything cached on the wrapper, on the cells or in the package between renders.

import (
	"fmt"
	"io"
	"strings"

	"go.pennock.tech/tabular"
	"go.pennock.tech/tabular/properties"
	"go.pennock.tech/tabular/properties/align"
)

type lifeCell struct {
	TCell
	ptr  interface{} // the stored item (pointer), nil for plain strings
	setF func(ItemF) // mutates the stored item in place
	mask int
}

type lifeModel struct {
	t         tabular.Table
	hasHdr    bool
	header    []string
	rows      [][]*lifeCell
	aligns    []interface{} // [0] column-0 default
	skip      map[int]interface{}
	serial    int
	overrides bool
	ops       []string
	// rows obtained from AppendNewRow (sized for the table's width at that moment)
	appended      int
	firstAppended int // 1-based index into rows, 0 = none
	copied        bool
}

func (m *lifeModel) newCell(text string, mask int, f ItemF) *lifeCell {
	f.S = text
	it, setF := mkItem(mask, true, f)
	lc := &lifeCell{ptr: it, setF: setF, mask: mask}
	lc.Text = text
	if mask&mW != 0 {
		w := f.W
		lc.DeclW = &w
	}
	if mask&mH != 0 {
		h := f.H
		lc.DeclH = &h
	}
	return lc
}

// newLife: header (alpha, b); rows [p00 p01] [p10]; with overrides: p01 declares height 1, p10 declares width 4.
func newLife(overrides bool) *lifeModel {
	m := &lifeModel{t: tabular.New(), skip: map[int]interface{}{}, overrides: overrides}
	m.hasHdr, m.header = true, []string{"alpha", "b"}
	m.t.AddHeaders("alpha", "b")
	c00 := m.newCell("aa", mS, ItemF{})
	c01 := m.newCell("x", mS, ItemF{})
	c10 := m.newCell("c", mS, ItemF{})
	if overrides {
		c01 = m.newCell("x", mS|mH, ItemF{H: 1})
		c10 = m.newCell("c", mS|mW, ItemF{W: 4})
	}
	m.rows = [][]*lifeCell{{c00, c01}, {c10}}
	m.t.AddRowItems(c00.ptr, c01.ptr)
	m.t.AddRowItems(c10.ptr)
	return m
}

func (m *lifeModel) grid() *Grid {
	g := &Grid{HasHeader: m.hasHdr, Header: append([]string{}, m.header...)}
	for _, r := range m.rows {
		gr := GridRow{Cells: []string{}}
		for _, c := range r {
			gr.Cells = append(gr.Cells, c.Text)
		}
		g.Rows = append(g.Rows, gr)
	}
	return g
}

func (m *lifeModel) tgrid() *TGrid {
	tg := &TGrid{HasHeader: m.hasHdr, Aligns: append([]interface{}{}, m.aligns...)}
	for _, h := range m.header {
		tg.Header = append(tg.Header, TCell{Text: h})
	}
	for _, r := range m.rows {
		tr := TRow{}
		for _, c := range r {
			tr.Cells = append(tr.Cells, c.TCell)
		}
		tg.Rows = append(tg.Rows, tr)
	}
	return tg
}

func (m *lifeModel) ncols() int { return m.grid().NCols() }

func (m *lifeModel) mutate(r, ci int, text string) {
	lc := m.rows[r][ci]
	f := ItemF{S: text}
	if lc.DeclW != nil {
		f.W = *lc.DeclW
	}
	if lc.DeclH != nil {
		f.H = *lc.DeclH
	}
	lc.setF(f)
	lc.Text = text
	cp, err := m.t.CellAt(tabular.CellLocation{Row: r + 1, Column: ci + 1})
	if err != nil {
		panic("harness: CellAt: " + err.Error())
	}
	cp.Update()
}

type lifeOp struct {
	name string
	ok   func(m *lifeModel) bool
	do   func(m *lifeModel)
}

func lifeOps(withAlign, withSkip bool) []lifeOp {
	always := func(*lifeModel) bool { return true }
	ops := []lifeOp{
		{"mutate (1,1) to other text of the same width + Update", always, func(m *lifeModel) {
			same := func(ch rune) string {
				return strings.Map(func(r rune) rune {
					if r == '\n' {
						return r
					}
					return ch
				}, m.rows[0][0].Text)
			}
			t := same('z')
			if t == m.rows[0][0].Text {
				t = same('y')
			}
			m.mutate(0, 0, t)
		}},
		{"mutate (1,1) to a wider text + Update", always, func(m *lifeModel) { m.serial++; m.mutate(0, 0, "wide"+strings.Repeat("w", m.serial)) }},
		{"mutate (1,1) to a narrower text + Update", always, func(m *lifeModel) { m.mutate(0, 0, "n") }},
		{"mutate (1,2) to three lines + Update", always, func(m *lifeModel) { m.mutate(0, 1, "l1\nl22\nl3") }},
		{"mutate (1,2) to one line + Update", always, func(m *lifeModel) { m.mutate(0, 1, "one") }},
		{"mutate (2,1) to text with quote, comma, pipe, angle + Update", always, func(m *lifeModel) { m.mutate(1, 0, `q",|<`) }},
		{"AddHeaders(a, bravo)  // widths move between columns", always, func(m *lifeModel) {
			m.t.AddHeaders("a", "bravo")
			m.hasHdr, m.header = true, []string{"a", "bravo"}
		}},
		{"AddHeaders(alpha, b)", always, func(m *lifeModel) {
			m.t.AddHeaders("alpha", "b")
			m.hasHdr, m.header = true, []string{"alpha", "b"}
		}},
		{"AddHeaders(x, x)  // duplicate", always, func(m *lifeModel) {
			m.t.AddHeaders("x", "x")
			m.hasHdr, m.header = true, []string{"x", "x"}
		}},
		{"AddHeaders(c, x)", always, func(m *lifeModel) {
			m.t.AddHeaders("c", "x")
			m.hasHdr, m.header = true, []string{"c", "x"}
		}},
		{"AddRowItems(2 cells)", func(m *lifeModel) bool { return len(m.rows) < 4 }, func(m *lifeModel) {
			m.serial++
			a, b := m.newCell(fmt.Sprintf("r%d", m.serial), mS, ItemF{}), m.newCell("v", mS, ItemF{})
			m.rows = append(m.rows, []*lifeCell{a, b})
			m.t.AddRowItems(a.ptr, b.ptr)
		}},
		{"AddRowItems(3 cells) twice  // wider than the header: a column without a header, cells of different width in it", func(m *lifeModel) bool { return len(m.rows) < 3 && m.ncols() < 3 }, func(m *lifeModel) {
			for _, third := range []string{"w3", "w3-wider"} {
				a, b, cc := m.newCell("w1", mS, ItemF{}), m.newCell("w2", mS, ItemF{}), m.newCell(third, mS, ItemF{})
				m.rows = append(m.rows, []*lifeCell{a, b, cc})
				m.t.AddRowItems(a.ptr, b.ptr, cc.ptr)
			}
		}},
		{"AppendNewRow() filled to the table's current width", func(m *lifeModel) bool { return len(m.rows) < 5 && m.appended < 2 }, func(m *lifeModel) {
			r := m.t.AppendNewRow()
			var cells []*lifeCell
			for i := 0; i < m.ncols(); i++ {
				m.serial++
				lc := m.newCell(fmt.Sprintf("p%d", m.serial), mS, ItemF{})
				cells = append(cells, lc)
				r.Add(tabular.NewCell(lc.ptr))
			}
			m.rows = append(m.rows, cells)
			m.appended++
			if m.firstAppended == 0 {
				m.firstAppended = len(m.rows)
			}
		}},
		{"first AppendNewRow row .Add(cell)  // beyond the width it was sized for", func(m *lifeModel) bool {
			return m.firstAppended > 0 && len(m.rows[m.firstAppended-1]) < 4
		}, func(m *lifeModel) {
			m.serial++
			lc := m.newCell(fmt.Sprintf("x%d", m.serial), mS, ItemF{})
			i := m.firstAppended - 1
			m.rows[i] = append(m.rows[i], lc)
			m.t.AllRows()[i].Add(tabular.NewCell(lc.ptr))
		}},
		{"row 2 .Add(cell)  // row already attached", func(m *lifeModel) bool { return len(m.rows[1]) < 2 }, func(m *lifeModel) {
			a := m.newCell("late", mS, ItemF{})
			m.rows[1] = append(m.rows[1], a)
			m.t.AllRows()[1].Add(tabular.NewCell(a.ptr))
		}},
	}
	ops = append(ops, lifeOp{"cs := row1.Cells(); cs[0], cs[1] = cs[1], cs[0]  // two placed cells swapped by assignment through Cells()", func(m *lifeModel) bool { return len(m.rows[0]) >= 2 }, func(m *lifeModel) {
		cs := m.t.AllRows()[0].Cells()
		cs[0], cs[1] = cs[1], cs[0]
		m.rows[0][0], m.rows[0][1] = m.rows[0][1], m.rows[0][0]
	}})
	if !withSkip {
		// (not for JSON, which shows the item itself rather than the cell's text)
		ops = append(ops, lifeOp{"AddRow(NewRow().Add(*CellAt(1,1)).Add(NewCell(cp)))  // a live cell copied by value into a new row", func(m *lifeModel) bool { return len(m.rows) < 4 && !m.copied }, func(m *lifeModel) {
			cp, err := m.t.CellAt(tabular.CellLocation{Row: 1, Column: 1})
			if err != nil {
				panic("harness: CellAt: " + err.Error())
			}
			r := tabular.NewRow().Add(*cp).Add(tabular.NewCell("cp"))
			m.t.AddRow(r)
			// the copy shows what the original showed when it was copied, and keeps showing it: it shares the item, but
			// nobody calls Update on the copy
			copyCell := &lifeCell{TCell: m.rows[0][0].TCell}
			second := &lifeCell{}
			second.Text = "cp"
			m.rows = append(m.rows, []*lifeCell{copyCell, second})
			m.copied = true
		}})
	}
	if withAlign {
		for col := 0; col <= 3; col++ {
			for _, av := range []struct {
				n string
				v interface{}
			}{{"right", align.Right}, {"centre", align.Center}, {"left", align.Left}, {"unset", nil}} {
				col, av := col, av
				exists := func(m *lifeModel) bool { return col <= 2 || m.ncols() >= col }
				ops = append(ops, lifeOp{fmt.Sprintf("Column(%d) alignment = %s", col, av.n), exists, func(m *lifeModel) {
					for len(m.aligns) <= 3 {
						m.aligns = append(m.aligns, nil)
					}
					m.aligns[col] = av.v
					m.t.Column(col).SetProperty(align.PropertyType, av.v)
				}})
			}
		}
	}
	if withSkip {
		for col := 0; col <= 3; col++ {
			for _, sv := range []struct {
				n string
				v interface{}
			}{{"true", true}, {"false", false}, {"unset", nil}} {
				col, sv := col, sv
				exists := func(m *lifeModel) bool { return col <= 2 || m.ncols() >= col }
				ops = append(ops, lifeOp{fmt.Sprintf("Column(%d) skipable = %s", col, sv.n), exists, func(m *lifeModel) {
					if sv.v == nil {
						delete(m.skip, col)
					} else {
						m.skip[col] = sv.v
					}
					m.t.Column(col).SetProperty(properties.Skipable, sv.v)
				}})
			}
		}
		ops = append(ops, lifeOp{"mutate (1,1) to empty text + Update", always, func(m *lifeModel) { m.mutate(0, 0, "") }})
	}
	return ops
}

// lifePanickingRender: checks whose wrapper is a text table (the only renderer with a documented panic)
var lifePanickingRender = map[string]bool{"C03": true, "C04": true}

// lifeWideStart: checks whose lifecycle family also starts from a table with a header-less third column.
var lifeWideStart = map[string]bool{"C03": true, "C04": true, "C05": true, "C08": true, "C09": true}

type lifeRenderer interface {
	Render() (string, error)
	RenderTo(io.Writer) error
}

// lifecycle runs one execution: up to depth operations chosen by c from the build/mutate ops,
// "Render" (judged) and "RenderTo a writer that fails at call 2" (not judged; it must only not poison later renders).
func lifecycle(x *X, c *Chooser, prop string, depth int, ops []lifeOp, overrides bool, mk func(t tabular.Table) lifeRenderer, judge func(m *lifeModel, tags []string, out string, err error)) {
	m := newLife(overrides)
	if lifeWideStart[prop] && c.Bool() {
		// second starting point: the table already has a row wider than its header (a column without a header)
		c.Logf("start: the table already has a third, header-less column")
		for _, third := range []string{"w3", "w3-wider"} {
			a, b, cc := m.newCell("w1", mS, ItemF{}), m.newCell("w2", mS, ItemF{}), m.newCell(third, mS, ItemF{})
			m.rows = append(m.rows, []*lifeCell{a, b, cc})
			m.t.AddRowItems(a.ptr, b.ptr, cc.ptr)
		}
		m.ops = append(m.ops, "start-with-headerless-column")
	}
	var w lifeRenderer
	renders := 0
	changedSince := false
	for step := 0; step < depth; step++ {
		var enabled []lifeOp
		for _, o := range ops {
			if o.ok(m) {
				enabled = append(enabled, o)
			}
		}
		extra := 0
		if lifePanickingRender[prop] {
			extra = 1
		}
		k := c.Choose(len(enabled) + 3 + extra)
		if k == 0 {
			break
		}
		x.Transition(1)
		if extra == 1 && k == len(enabled)+3 {
			// a render that PANICS half-way (the text renderer's documented panic for an alignment value it does not know),
			// recovered by the caller, who then repairs the setting: nothing of the aborted render may survive on the wrapper
			if w == nil {
				w = mk(m.t)
			}
			c.Logf("Column(1) alignment = an invalid value; wrapper.Render() under recover (panics by design); alignment restored")
			m.t.Column(1).SetProperty(align.PropertyType, align.TestingInvalidAlignment())
			Safe(func() { w.Render() })
			var restore interface{}
			if len(m.aligns) > 1 {
				restore = m.aligns[1]
			}
			m.t.Column(1).SetProperty(align.PropertyType, restore)
			m.ops = append(m.ops, "render-that-panicked")
			changedSince = true
			continue
		}
		switch {
		case k == 1 || k == 2:
			if w == nil {
				w = mk(m.t)
			}
			if k == 2 {
				c.Logf("wrapper.RenderTo(writer failing at its 2nd Write)")
				m.ops = append(m.ops, "failed-render")
				if p, val, site := Safe(func() { w.RenderTo(&faultWriter{mode: 1, k: 2}) }); p {
					x.FailSite(prop+".no_panic", []string{"lifecycle", "panic"}, site, "RenderTo with a failing writer panicked: %v after %v", val, m.ops)
					return
				}
				changedSince = true
				continue
			}
			c.Logf("wrapper.Render()")
			var out string
			var err error
			if p, val, site := Safe(func() { out, err = w.Render() }); p {
				x.FailSite(prop+".no_panic", []string{"lifecycle", "panic", "long_lived_wrapper"}, site, "Render panicked: %v after %v", val, m.ops)
				return
			}
			tags := []string{"lifecycle", "long_lived_wrapper"}
			if renders > 0 && changedSince {
				tags = append(tags, "table_or_settings_changed_since_last_render")
			}
			renders++
			changedSince = false
			m.ops = append(m.ops, "render")
			judge(m, tags, out, err)
		default:
			o := enabled[k-3]
			c.Logf("%s", o.name)
			o.do(m)
			m.ops = append(m.ops, o.name)
			changedSince = true
		}
	}
	x.State(fmt.Sprint(m.ops))
	if renders > 1 {
		x.Nontrivial(fmt.Sprint(m.ops))
	}
}
