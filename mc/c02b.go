package main

// C02, family "re-entrant-build": a table-level add-time ROW callback that itself calls a table-building
// operation while AddRow is still running (a separator after a "total" row, an extra row).  Rows must come
// out in the order in which their add calls STARTED, and every position/location must stay consistent.

import (
	"fmt"

	"go.pennock.tech/tabular"
)

type c02Injector struct {
	t      tabular.Table
	b      *Builder
	plan   []int // per outer row (in order): 0 nothing, 1 AddSeparator, 2 AddRowItems(2 cells), 3 AddRowItems(0 cells)
	outer  int
	inside bool
	pend   []*RefRow // model rows the callback has added during the current outer AddRow
	serial int
}

func (in *c02Injector) UpdateProperties(po tabular.PropertyOwner) error {
	if in.inside {
		return nil // rows added by the callback itself do not inject again
	}
	k := 0
	if in.outer < len(in.plan) {
		k = in.plan[in.outer]
	}
	in.outer++
	in.inside = true
	defer func() { in.inside = false }()
	switch k {
	case 1:
		in.t.AddSeparator()
		in.pend = append(in.pend, &RefRow{Sep: true, Attached: true})
	case 2:
		in.serial++
		a, b := fmt.Sprintf("in%da", in.serial), fmt.Sprintf("in%db", in.serial)
		in.t.AddRowItems(a, b)
		in.pend = append(in.pend, &RefRow{Cells: []string{a, b}, Attached: true})
	case 3:
		in.t.AddRowItems()
		in.pend = append(in.pend, &RefRow{Cells: []string{}, Attached: true})
	}
	return nil
}

func runC02Reentrant(x *X) {
	n := x.Pick(3, 4)
	x.Explore("re-entrant-build", ExploreOpts{ShardDepth: 2, Bound: fmt.Sprintf("header of 2 cells or none; %d outer rows (AddRowItems of 0/1/2/3 cells or AddRow of a detached row), a table-level add-time ROW callback injecting {nothing, AddSeparator, AddRowItems(2), AddRowItems(0)} during each; full oracle after every outer operation", n)}, func(c *Chooser) {
		b := NewBuilder(&BuildCfg{Counts: []int{0, 1, 2, 3}})
		t := b.T
		if c.Bool() {
			t.AddHeaders("h1", "h2")
			b.HasHeader, b.Header, b.MaxEver = true, []string{"h1", "h2"}, 2
		}
		in := &c02Injector{t: t, b: b}
		if err := registerCB(t, t, 0, 2, in); err != nil {
			panic("harness: registering table/ADD/ROW: " + err.Error())
		}
		for i := 0; i < n; i++ {
			in.plan = append(in.plan, c.Choose(4))
		}
		c.Logf("callback plan per outer row: %v (0 nothing, 1 AddSeparator, 2 AddRowItems(2 cells), 3 AddRowItems())", in.plan)
		serial := 0
		for i := 0; i < n; i++ {
			k := c.Choose(6)
			if k == 0 {
				break
			}
			x.Transition(1)
			var texts []string
			ncells := []int{0, 1, 2, 3, 2}[k-1]
			items := make([]interface{}, ncells)
			for j := range items {
				serial++
				texts = append(texts, fmt.Sprintf("o%d", serial))
				items[j] = texts[j]
			}
			if texts == nil {
				texts = []string{}
			}
			outer := &RefRow{Cells: texts, Attached: true}
			in.pend = nil
			opName := fmt.Sprintf("AddRowItems/%d", ncells)
			if k == 5 {
				opName = "AddRow(detached row of 2 cells)"
				r := tabular.NewRow()
				for _, it := range items {
					r.Add(tabular.NewCell(it))
				}
				outer.Ptr = r
				t.AddRow(r)
			} else {
				t.AddRowItems(items...)
			}
			c.Logf("%s   // callback injected %d row(s)", opName, len(in.pend))
			b.Rows = append(b.Rows, outer)
			b.Rows = append(b.Rows, in.pend...)
			for _, r := range append([]*RefRow{outer}, in.pend...) {
				if len(r.Cells) > b.MaxEver {
					b.MaxEver = len(r.Cells)
				}
			}
			c02Oracle(x, b, opName+" with a re-entrant add-time callback")
		}
		x.State(fmt.Sprint(in.plan, b.Key()))
		x.Nontrivial(fmt.Sprint(in.plan, b.Key()))
	})
}

// family "rows-copied-to-second-table": the rows of a finished table are added, in order, to a fresh second table
// (filtering or copying a table by its AllRows()); the second table must count, order and address them like rows of
// its own.
func runC02SecondTable(x *X) {
	depth := x.Pick(3, 4)
	cfg := &BuildCfg{Counts: []int{0, 1, 2, 3}, MaxDetached: 1, AllowNewRowSized: true}
	x.Explore("rows-copied-to-second-table", ExploreOpts{ShardDepth: 2, Bound: fmt.Sprintf("source table built by every sequence of <=%d operations; every row (separators as AddSeparator) then added to a fresh table, optionally with a header of 1 cell; full oracle on the second table", depth)}, func(c *Chooser) {
		b := NewBuilder(cfg)
		for step := 0; step < depth; step++ {
			if b.Step(c, step > 0) == "" {
				break
			}
			x.Transition(1)
		}
		dst := tabular.New()
		b2 := &Builder{Cfg: cfg, T: dst}
		if c.Bool() {
			dst.AddHeaders("only")
			b2.HasHeader, b2.Header, b2.MaxEver = true, []string{"only"}, 1
		}
		for _, r := range b.Rows {
			if r.Sep {
				dst.AddSeparator()
				b2.Rows = append(b2.Rows, &RefRow{Sep: true, Attached: true})
				continue
			}
			dst.AddRow(r.Ptr)
			b2.Rows = append(b2.Rows, &RefRow{Cells: r.Cells, Ptr: r.Ptr, Attached: true})
			if len(r.Cells) > b2.MaxEver {
				b2.MaxEver = len(r.Cells)
			}
		}
		c.Logf("dst := New(); every row of the source added to dst in order (%d rows)", len(b.Rows))
		x.Transition(1)
		c02Oracle(x, b2, "rows of another table added to this one")
		x.State("second:" + b.Key())
		if len(b.Rows) > 0 {
			x.Nontrivial("second:" + b.Key())
		}
	})
}

// family "rows-rebuilt-cell-by-cell": after the build history, rows are duplicated the way a caller copies a row by
// hand - a new row to which the source row's cells (values taken from Cells(), or the header cells from Headers())
// are added one by one - and the new rows are attached to the same table (a repeated header as footer, a
// duplicated row) or to a fresh one.  Every copied cell sits at the same column index it had in its source row.
func runC02CellByCell(x *X) {
	depth := x.Pick(3, 4)
	cfg := &BuildCfg{Counts: []int{0, 1, 2, 3}, MaxDetached: 1, AllowNewRowSized: true}
	x.Explore("rows-rebuilt-cell-by-cell", ExploreOpts{ShardDepth: 2, Bound: fmt.Sprintf("table built by every sequence of <=%d operations; then {every row, the header, both} rebuilt cell by cell (Row.Add of the placed Cell values) into new rows attached to {the same table, a fresh table}; full oracle afterwards", depth)}, func(c *Chooser) {
		b := NewBuilder(cfg)
		for step := 0; step < depth; step++ {
			if b.Step(c, step > 0) == "" {
				break
			}
			x.Transition(1)
		}
		what := c.Choose(3) // 0 rows, 1 header, 2 both
		same := c.Bool()
		dstB := b
		if !same {
			dstB = &Builder{Cfg: cfg, T: tabular.New()}
		}
		type src struct {
			cells []tabular.Cell
			texts []string
		}
		var srcs []src
		if what != 1 {
			for _, r := range b.Rows {
				if r.Sep || r.Ptr == nil {
					continue
				}
				srcs = append(srcs, src{r.Ptr.Cells(), r.Cells})
			}
		}
		if what != 0 && b.HasHeader {
			srcs = append(srcs, src{b.T.Headers(), b.Header})
		}
		for _, s := range srcs {
			nr := tabular.NewRow()
			for _, cell := range s.cells {
				nr.Add(cell)
			}
			dstB.T.AddRow(nr)
			texts := append([]string{}, s.texts...)
			dstB.Rows = append(dstB.Rows, &RefRow{Cells: texts, Ptr: nr, Attached: true})
			if len(texts) > dstB.MaxEver {
				dstB.MaxEver = len(texts)
			}
		}
		c.Logf("%d row(s) rebuilt cell by cell (what=%d: 0 rows, 1 header, 2 both) and attached to %s", len(srcs), what, map[bool]string{true: "the same table", false: "a fresh table"}[same])
		x.Transition(1)
		c02Oracle(x, dstB, "rows rebuilt cell by cell from placed cells")
		x.State(fmt.Sprint("cellbycell:", what, same, b.Key()))
		if len(srcs) > 0 {
			x.Nontrivial(fmt.Sprint("cellbycell:", what, same, b.Key()))
		}
	})
}
