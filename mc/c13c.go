package main

// C13, family "pass-after-an-abandoned-pass": a render pass that does not return normally - a callback panics and
// the caller recovers (a web handler's recover, a test's FailNow) or the goroutine exits - must not change what
// later passes do: on the next complete pass every callback again fires once per target, exactly as on a twin table
// whose passes were never interrupted.

import (
	"fmt"
	"runtime"

	"go.pennock.tech/tabular"
)

type c13Aborter struct {
	armed bool
	how   int // 0 panic, 1 runtime.Goexit
}

func (a *c13Aborter) UpdateProperties(po tabular.PropertyOwner) error {
	if !a.armed {
		return nil
	}
	a.armed = false
	if a.how == 1 {
		runtime.Goexit()
	}
	panic("c13: callback gives up")
}

func c13AbandonedPass(x *X, c *Chooser) {
	type slot struct {
		name         string
		owner        int // 0 table, 1 column 1, 2 row 1
		when, target int
	}
	abortSlots := []slot{{"table/PRECELL/ITSELF", 0, 1, 0}, {"table/RENDER/CELL", 0, 2, 1}, {"column1/PRECELL/CELL", 1, 1, 1}, {"row1/RENDER/ITSELF", 2, 2, 0}, {"table/POSTCELL/ITSELF", 0, 3, 0}, {"column1/POSTCELL/ITSELF", 1, 3, 0}}
	countSlots := []slot{{"table/PRECELL/ITSELF", 0, 1, 0}, {"table/PRECELL/CELL", 0, 1, 1}, {"table/RENDER/CELL", 0, 2, 1}, {"table/POSTCELL/CELL", 0, 3, 1}, {"table/POSTCELL/ITSELF", 0, 3, 0}, {"column1/PRECELL/ITSELF", 1, 1, 0}, {"column1/RENDER/CELL", 1, 2, 1}, {"row1/PRECELL/CELL", 2, 1, 1}, {"row1/POSTCELL/ITSELF", 2, 3, 0}}
	as := abortSlots[c.Choose(len(abortSlots))]
	how := c.Choose(2)
	abortOn := 1 + c.Choose(2) // the pass that is abandoned
	after := 1 + c.Choose(2)   // complete passes checked afterwards
	hdr := c.Bool()
	build := func(ab *c13Aborter) (tabular.Table, []*c13Counter) {
		t := tabular.New()
		if hdr {
			t.AddHeaders("h1", "h2")
		}
		t.AddRowItems("a", "b")
		t.AddRowItems("c", "d")
		ownerOf := func(s slot) tabular.PropertyOwner {
			switch s.owner {
			case 1:
				return t.Column(1)
			case 2:
				return t.AllRows()[0]
			}
			return t
		}
		var cnts []*c13Counter
		reg := func(s slot, cb tabular.PropertyCallback) {
			if err := registerCB(t, ownerOf(s), s.when, s.target, cb); err != nil {
				panic("harness: registering " + s.name + ": " + err.Error())
			}
		}
		// half of the counters are registered before the aborter, half after it
		for i, s := range countSlots {
			if i%2 == 0 {
				k := &c13Counter{}
				cnts = append(cnts, k)
				reg(s, k)
			}
		}
		if ab != nil {
			reg(as, ab)
		}
		for i, s := range countSlots {
			if i%2 == 1 {
				k := &c13Counter{}
				cnts = append(cnts, k)
				reg(s, k)
			}
		}
		return t, cnts
	}
	ab := &c13Aborter{how: how}
	t, cnts := build(ab)
	twin, twinCnts := build(nil)
	tags := []string{"pass_after_an_abandoned_pass", "abandoned_by:" + []string{"panic_recovered_by_caller", "goroutine_exit"}[how], "aborting_slot:" + as.name}
	c.Logf("table header=%v 2x2; aborting callback on %s (%s) during pass %d; then %d complete passes compared with a twin table never interrupted", hdr, as.name, []string{"panic, recovered by the caller", "runtime.Goexit in the rendering goroutine"}[how], abortOn, after)
	pass := func(tb tabular.Table) (finished bool) {
		done := make(chan bool, 1)
		go func() {
			ok := false
			defer func() {
				recover()
				done <- ok
			}()
			tb.InvokeRenderCallbacks()
			ok = true
		}()
		return <-done
	}
	for p := 1; p < abortOn; p++ {
		pass(t)
		pass(twin)
	}
	ab.armed = true
	if pass(t) {
		// the slot the aborter sits on does not fire on this table shape: nothing was abandoned, nothing to compare
		x.Note("aborting_slot_did_not_fire:" + as.name)
		return
	}
	pass(twin)
	x.Transition(abortOn)
	for p := 1; p <= after; p++ {
		for _, k := range cnts {
			k.n = 0
		}
		for _, k := range twinCnts {
			k.n = 0
		}
		if !pass(t) {
			x.Fail("C13.once", append(tags, "later_pass_did_not_complete"), "complete pass %d after the abandoned one did not return normally", p)
			return
		}
		pass(twin)
		x.Transition(1)
		x.Clause("C13.once")
		for i := range cnts {
			// cnts is in registration order: even-indexed slots first, then odd-indexed
			if cnts[i].n != twinCnts[i].n {
				x.Fail("C13.once", tags, "complete pass %d after the abandoned pass: counter %d fired %d times, on the never-interrupted twin %d times; all counters %v vs twin %v", p, i, cnts[i].n, twinCnts[i].n, c13Counts(cnts), c13Counts(twinCnts))
				return
			}
		}
	}
	x.State(fmt.Sprint("abandoned", as.name, how, abortOn, after, hdr))
	x.Nontrivial(fmt.Sprint(c.path))
}
