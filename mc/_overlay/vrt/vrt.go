// Package vrt is the run-time of the controlled scheduler.  It is compiled
// into the code under test as the virtual package
// go.pennock.tech/tabular/zverif/vrt through `go build -overlay` (no file of
// /repo is modified): the repository's `import "sync"` is rewritten to this
// package and every access to a mutable package-level variable is preceded by
// Access(id, isWrite).
//
// Exactly one managed thread runs at a time.  Every hooked operation first
// hands control back to the scheduler (a scheduling point); the scheduler
// then decides which enabled thread continues.  Outside a managed run (init
// functions, harness code) all hooks fall through to ordinary behaviour.
package vrt

import (
	"fmt"
	"runtime"
	"sort"
	"strings"
	realsync "sync"
)

type thread struct {
	id        int
	wake      chan struct{}
	done      bool
	blockedOn interface{}
	vc        []int
	lastKind  string
	lastObj   string
	repeat    int
}

// PointInfo describes one scheduling decision.
type PointInfo struct {
	Enabled   []int // canonical order: the thread that just ran first if still enabled, then ascending ids
	Running   int   // thread that ran last (-1 at start)
	RunningOn bool  // that thread is still enabled (choosing another one is a preemption)
}

type Race struct {
	Var   string
	Kinds string
	A, B  string
}

type Result struct {
	Deadlock bool
	Blocked  []string
	Races    []Race
	Panics   []string
	Points   int
	Horizon  bool
	Trace    []string
	Preempts int
}

type varState struct {
	wT, wC int
	wAt    string
	reads  map[int]int
	readAt map[int]string
}

type sched struct {
	threads []*thread
	cur     *thread
	yield   chan struct{}
	pick    func(p PointInfo) int
	res     *Result
	vars    map[string]*varState
	atomics map[string][]int
	trace   bool
}

var active *sched
var runMu realsync.Mutex

// epoch counts managed runs; pooled objects do not survive from one run to the next.
var epoch int

func managed() (*sched, *thread) {
	s := active
	if s == nil || s.cur == nil {
		return nil, nil
	}
	return s, s.cur
}

// Managed reports whether the caller runs as a managed thread.
func Managed() bool { _, t := managed(); return t != nil }

// ThreadID returns the id of the running managed thread, or -1.
func ThreadID() int {
	_, t := managed()
	if t == nil {
		return -1
	}
	return t.id
}

func unblocked(t *thread) bool {
	switch b := t.blockedOn.(type) {
	case *Mutex:
		return !b.held
	case *rwWait:
		if b.write {
			return !b.m.wheld && b.m.readers == 0
		}
		return !b.m.wheld
	case *WaitGroup:
		return b.n <= 0
	case *Once:
		return !b.running
	}
	return true
}

// Run executes the bodies as managed threads under the decision function pick,
// which receives the enabled set (len > 1) and returns an index into it.
func Run(bodies []func(), pick func(p PointInfo) int, trace bool, horizon int) *Result {
	runMu.Lock()
	defer runMu.Unlock()
	epoch++
	s := &sched{yield: make(chan struct{}), pick: pick, res: &Result{}, vars: map[string]*varState{}, atomics: map[string][]int{}, trace: trace}
	for i, b := range bodies {
		t := &thread{id: i, wake: make(chan struct{}), vc: make([]int, len(bodies))}
		t.vc[i] = 1
		s.threads = append(s.threads, t)
		b := b
		go func() {
			<-t.wake
			defer func() {
				if r := recover(); r != nil {
					s.res.Panics = append(s.res.Panics, fmt.Sprintf("thread %d panicked: %v (in %s)", t.id, r, site()))
				}
				t.done = true
				s.yield <- struct{}{}
			}()
			b()
		}()
	}
	active = s
	defer func() { active = nil }()
	last := -1
	for {
		var enabled []int
		alive := 0
		for _, t := range s.threads {
			if t.done {
				continue
			}
			alive++
			if t.blockedOn != nil && !unblocked(t) {
				continue
			}
			enabled = append(enabled, t.id)
		}
		if alive == 0 {
			break
		}
		if len(enabled) == 0 {
			s.res.Deadlock = true
			for _, t := range s.threads {
				if !t.done {
					s.res.Blocked = append(s.res.Blocked, fmt.Sprintf("thread %d blocked at %s %s", t.id, t.lastKind, t.lastObj))
				}
			}
			break // the parked goroutines are abandoned
		}
		sort.Ints(enabled)
		runningOn := false
		for i, id := range enabled {
			if id == last {
				runningOn = true
				copy(enabled[1:i+1], enabled[:i])
				enabled[0] = last
				break
			}
		}
		idx := 0
		if len(enabled) > 1 {
			idx = s.pick(PointInfo{Enabled: enabled, Running: last, RunningOn: runningOn})
			if idx < 0 || idx >= len(enabled) {
				panic("harness: scheduler pick out of range")
			}
		}
		if runningOn && idx != 0 {
			s.res.Preempts++
		}
		t := s.threads[enabled[idx]]
		s.res.Points++
		if s.res.Points > horizon {
			s.res.Horizon = true
			break
		}
		s.cur = t
		t.blockedOn = nil
		t.wake <- struct{}{}
		<-s.yield
		s.cur = nil
		last = t.id
	}
	return s.res
}

func (s *sched) park(t *thread) {
	s.yield <- struct{}{}
	<-t.wake
}

// Point is a scheduling point: the calling managed thread is about to perform the described step.
func Point(kind, obj string) { point(kind, obj, false) }

// maxRepeat: a thread that performs the SAME data access (same kind, same variable) again and again with nothing
// else in between - a loop over a package-level slice or map - is offered as a preemption candidate only the first
// maxRepeat times of each run of repeats.  This is one more stated bound of the exploration (it removes schedules,
// never adds behaviour); the race detector still sees every access.
const maxRepeat = 3

func point(kind, obj string, collapsible bool) {
	s, t := managed()
	if t == nil {
		return
	}
	if collapsible && t.lastKind == kind && t.lastObj == obj {
		t.repeat++
		if t.repeat >= maxRepeat {
			return
		}
	} else {
		t.repeat = 0
	}
	t.lastKind, t.lastObj = kind, obj
	s.park(t)
	if s.trace {
		s.res.Trace = append(s.res.Trace, fmt.Sprintf("T%d %s %s", t.id, kind, obj))
	}
}

// Yield is an explicit harness-level scheduling point.
func Yield(label string) { Point("step", label) }

func join(a, b []int) {
	for i := range b {
		if i < len(a) && b[i] > a[i] {
			a[i] = b[i]
		}
	}
}

func (t *thread) release() []int {
	c := append([]int(nil), t.vc...)
	t.vc[t.id]++
	return c
}

func site() string {
	pcs := make([]uintptr, 48)
	n := runtime.Callers(3, pcs)
	frames := runtime.CallersFrames(pcs[:n])
	for {
		f, more := frames.Next()
		if strings.HasPrefix(f.Function, "go.pennock.tech/tabular") && !strings.Contains(f.Function, "/zverif/") {
			return strings.TrimPrefix(f.Function, "go.pennock.tech/")
		}
		if !more {
			return ""
		}
	}
}

// Access records a read or write of a mutable package-level variable (or of a
// field/element path below it).  It is a scheduling point and feeds the
// vector-clock race detector.
func Access(id string, write bool) {
	s, t := managed()
	if t == nil {
		return
	}
	kind := "read"
	if write {
		kind = "write"
	}
	point(kind, id, true)
	v := s.vars[id]
	if v == nil {
		v = &varState{wT: -1, reads: map[int]int{}, readAt: map[int]string{}}
		s.vars[id] = v
	}
	here := fmt.Sprintf("T%d %s in %s", t.id, kind, site())
	race := func(kinds, other string) {
		for _, r := range s.res.Races {
			if r.Var == id && r.Kinds == kinds {
				return
			}
		}
		s.res.Races = append(s.res.Races, Race{Var: id, Kinds: kinds, A: other, B: here})
	}
	if v.wT >= 0 && v.wT != t.id && v.wC > t.vc[v.wT] {
		if write {
			race("write/write", v.wAt)
		} else {
			race("write/read", v.wAt)
		}
	}
	if write {
		for rt, rc := range v.reads {
			if rt != t.id && rc > t.vc[rt] {
				race("read/write", v.readAt[rt])
			}
		}
		v.wT, v.wC, v.wAt = t.id, t.vc[t.id], here
		v.reads, v.readAt = map[int]int{}, map[int]string{}
	} else {
		v.reads[t.id] = t.vc[t.id]
		v.readAt[t.id] = here
	}
}

// Atomic is a sync/atomic operation on (a field of) a package-level variable: a scheduling point
// and a happens-before edge (kind 1 load = acquire, 2 store = release, 3 read-modify-write = both),
// never a data access.
func Atomic(id string, kind int) {
	s, t := managed()
	if t == nil {
		return
	}
	Point("atomic", id)
	if kind != 2 {
		join(t.vc, s.atomics[id])
	}
	if kind != 1 {
		c := t.release()
		if kind == 3 {
			join(c, s.atomics[id])
		}
		s.atomics[id] = c
	}
}

// ---------------------------------------------------------------------------
// sync replacements

type Locker = realsync.Locker
type Map = realsync.Map
type Cond = realsync.Cond

func NewCond(l Locker) *Cond { return realsync.NewCond(l) }

// Pool: under the scheduler a deterministic LIFO free list (always reusing the most recently returned object
// is one of the behaviours sync.Pool allows, and the one that exposes state left behind in pooled objects);
// Get and Put are scheduling points and Put happens-before the Get that returns the same object.  The list
// is emptied at the start of every managed run so that executions stay independent of each other.
type Pool struct {
	New func() any

	real  realsync.Pool
	items []poolItem
	epoch int
}

type poolItem struct {
	v  any
	vc []int
}

func (p *Pool) Get() any {
	_, t := managed()
	if t == nil {
		if v := p.real.Get(); v != nil {
			return v
		}
		if p.New != nil {
			return p.New()
		}
		return nil
	}
	Point("pool-get", fmt.Sprintf("pool %p", p))
	if p.epoch != epoch {
		p.items, p.epoch = nil, epoch
	}
	if n := len(p.items); n > 0 {
		it := p.items[n-1]
		p.items = p.items[:n-1]
		join(t.vc, it.vc)
		return it.v
	}
	if p.New != nil {
		return p.New()
	}
	return nil
}

func (p *Pool) Put(v any) {
	_, t := managed()
	if t == nil {
		p.real.Put(v)
		return
	}
	Point("pool-put", fmt.Sprintf("pool %p", p))
	if p.epoch != epoch {
		p.items, p.epoch = nil, epoch
	}
	p.items = append(p.items, poolItem{v, t.release()})
}

type Mutex struct {
	mu   realsync.Mutex
	held bool
	vc   []int
}

func (m *Mutex) Lock() {
	s, t := managed()
	if t == nil {
		m.mu.Lock()
		return
	}
	Point("lock", fmt.Sprintf("mutex %p", m))
	for m.held {
		t.blockedOn = m
		s.park(t)
	}
	m.held = true
	join(t.vc, m.vc)
}

func (m *Mutex) TryLock() bool {
	_, t := managed()
	if t == nil {
		return m.mu.TryLock()
	}
	Point("trylock", fmt.Sprintf("mutex %p", m))
	if m.held {
		return false
	}
	m.held = true
	join(t.vc, m.vc)
	return true
}

func (m *Mutex) Unlock() {
	_, t := managed()
	if t == nil {
		m.mu.Unlock()
		return
	}
	if !m.held {
		panic("sync: unlock of unlocked mutex")
	}
	m.vc = t.release()
	m.held = false
}

type RWMutex struct {
	mu      realsync.RWMutex
	wheld   bool
	readers int
	vc      []int
}

type rwWait struct {
	m     *RWMutex
	write bool
}

func (m *RWMutex) Lock() {
	s, t := managed()
	if t == nil {
		m.mu.Lock()
		return
	}
	Point("lock", fmt.Sprintf("rwmutex %p", m))
	for m.wheld || m.readers > 0 {
		t.blockedOn = &rwWait{m, true}
		s.park(t)
	}
	m.wheld = true
	join(t.vc, m.vc)
}

func (m *RWMutex) Unlock() {
	_, t := managed()
	if t == nil {
		m.mu.Unlock()
		return
	}
	m.vc = t.release()
	m.wheld = false
}

func (m *RWMutex) RLock() {
	s, t := managed()
	if t == nil {
		m.mu.RLock()
		return
	}
	Point("rlock", fmt.Sprintf("rwmutex %p", m))
	for m.wheld {
		t.blockedOn = &rwWait{m, false}
		s.park(t)
	}
	m.readers++
	join(t.vc, m.vc)
}

func (m *RWMutex) RUnlock() {
	_, t := managed()
	if t == nil {
		m.mu.RUnlock()
		return
	}
	c := t.release()
	if m.vc == nil {
		m.vc = c
	} else {
		join(m.vc, c)
	}
	m.readers--
}

func (m *RWMutex) RLocker() Locker { return (*rlocker)(m) }

type rlocker RWMutex

func (r *rlocker) Lock()   { (*RWMutex)(r).RLock() }
func (r *rlocker) Unlock() { (*RWMutex)(r).RUnlock() }

type Once struct {
	once    realsync.Once
	done    bool
	running bool
	vc      []int
}

func (o *Once) Do(f func()) {
	s, t := managed()
	if t == nil {
		o.once.Do(func() { f(); o.done = true })
		return
	}
	Point("once", fmt.Sprintf("once %p", o))
	for o.running {
		t.blockedOn = o
		s.park(t)
	}
	if o.done {
		join(t.vc, o.vc)
		return
	}
	o.running = true
	defer func() {
		o.done = true
		o.running = false
		o.vc = t.release()
		// later unmanaged callers must see it done as well
		o.once.Do(func() {})
	}()
	f()
}

type WaitGroup struct {
	wg realsync.WaitGroup
	n  int
	vc []int
}

func (w *WaitGroup) Add(d int) {
	_, t := managed()
	if t == nil {
		w.wg.Add(d)
		return
	}
	w.n += d
	if d < 0 {
		c := t.release()
		if w.vc == nil {
			w.vc = c
		} else {
			join(w.vc, c)
		}
	}
}

func (w *WaitGroup) Done() { w.Add(-1) }

func (w *WaitGroup) Wait() {
	s, t := managed()
	if t == nil {
		w.wg.Wait()
		return
	}
	Point("wait", fmt.Sprintf("waitgroup %p", w))
	for w.n > 0 {
		t.blockedOn = w
		s.park(t)
	}
	join(t.vc, w.vc)
}

// ResetHook, when the overlay could install it, removes the given names from the decoration registry
// (harness use only, between executions).
var ResetHook func(names []string)
