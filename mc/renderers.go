package main

import (
	"bytes"
	"html/template"
	"io"

	"go.pennock.tech/tabular"
	"go.pennock.tech/tabular/auto"
	"go.pennock.tech/tabular/csv"
	thtml "go.pennock.tech/tabular/html"
	tjson "go.pennock.tech/tabular/json"
	"go.pennock.tech/tabular/markdown"
	"go.pennock.tech/tabular/texttable"
	"go.pennock.tech/tabular/texttable/decoration"
)

// A Target is one way of turning a table into bytes.
type Target struct {
	Name     string // unique
	Format   string // csv | json | markdown | html | html+gen | text:<decoration>
	Via      string // method | func | auto
	Render   func(t tabular.Table) (string, error)
	RenderTo func(t tabular.Table, w io.Writer) error
}

func customDecoration() decoration.Decoration {
	d := decoration.Decoration{Horizontal: "=", Vertical: ":", CrossPiece: "*", TopLeft: "/", HBCross: "#"}
	d.Populate()
	return d
}

func rowClassGen(n int, ctx interface{}) template.HTMLAttr {
	if p, ok := ctx.(*[]int); ok && p != nil {
		*p = append(*p, n)
	}
	if n%2 == 0 {
		return "even"
	}
	return "odd"
}

func textTarget(name, format string, set func(tt *texttable.TextTable)) Target {
	return Target{Name: name, Format: format, Via: "method",
		Render: func(t tabular.Table) (string, error) {
			tt := texttable.Wrap(t)
			set(tt)
			return tt.Render()
		},
		RenderTo: func(t tabular.Table, w io.Writer) error {
			tt := texttable.Wrap(t)
			set(tt)
			return tt.RenderTo(w)
		}}
}

// baseTargets: wrapper methods and package functions of the five renderers.
func baseTargets() []Target {
	ts := []Target{
		{Name: "csv.Wrap.Render", Format: "csv", Via: "method",
			Render:   func(t tabular.Table) (string, error) { return csv.Wrap(t).Render() },
			RenderTo: func(t tabular.Table, w io.Writer) error { return csv.Wrap(t).RenderTo(w) }},
		{Name: "csv.Render", Format: "csv", Via: "func",
			Render:   func(t tabular.Table) (string, error) { return csv.Render(t) },
			RenderTo: func(t tabular.Table, w io.Writer) error { return csv.RenderTo(t, w) }},
		{Name: "json.Wrap.Render", Format: "json", Via: "method",
			Render:   func(t tabular.Table) (string, error) { return tjson.Wrap(t).Render() },
			RenderTo: func(t tabular.Table, w io.Writer) error { return tjson.Wrap(t).RenderTo(w) }},
		{Name: "json.Render", Format: "json", Via: "func",
			Render:   func(t tabular.Table) (string, error) { return tjson.Render(t) },
			RenderTo: func(t tabular.Table, w io.Writer) error { return tjson.RenderTo(t, w) }},
		{Name: "markdown.Wrap.Render", Format: "markdown", Via: "method",
			Render:   func(t tabular.Table) (string, error) { return markdown.Wrap(t).Render() },
			RenderTo: func(t tabular.Table, w io.Writer) error { return markdown.Wrap(t).RenderTo(w) }},
		{Name: "markdown.Render", Format: "markdown", Via: "func",
			Render:   func(t tabular.Table) (string, error) { return markdown.Render(t) },
			RenderTo: func(t tabular.Table, w io.Writer) error { return markdown.RenderTo(t, w) }},
		{Name: "html.Wrap.Render", Format: "html", Via: "method",
			Render:   func(t tabular.Table) (string, error) { return thtml.Wrap(t).Render() },
			RenderTo: func(t tabular.Table, w io.Writer) error { return thtml.Wrap(t).RenderTo(w) }},
		{Name: "html.Wrap.Render+rowclass", Format: "html+gen", Via: "method",
			Render: func(t tabular.Table) (string, error) {
				return thtml.Wrap(t).SetRowClassGenerator(rowClassGen, nil).Render()
			},
			RenderTo: func(t tabular.Table, w io.Writer) error {
				return thtml.Wrap(t).SetRowClassGenerator(rowClassGen, nil).RenderTo(w)
			}},
		{Name: "texttable.Render", Format: "text:utf8-heavy", Via: "func",
			Render:   func(t tabular.Table) (string, error) { return texttable.Render(t) },
			RenderTo: func(t tabular.Table, w io.Writer) error { return texttable.RenderTo(t, w) }},
		textTarget("texttable.Wrap.Render(default)", "text:utf8-heavy", func(tt *texttable.TextTable) {}),
		textTarget("texttable.SetDecoration(custom)", "text:custom", func(tt *texttable.TextTable) { tt.SetDecoration(customDecoration()) }),
		textTarget("texttable.SetDecorationNamed(unknown)", "text:!unknown", func(tt *texttable.TextTable) { tt.SetDecorationNamed("no-such-decoration") }),
	}
	return ts
}

func namedTextTarget(name string) Target {
	return textTarget("texttable.SetDecorationNamed("+name+")", "text:"+name, func(tt *texttable.TextTable) { tt.SetDecorationNamed(name) })
}

func autoTarget(style string) Target {
	format := "text:" + style
	switch style {
	case "csv", "json", "markdown", "html":
		format = style
	}
	return Target{Name: "auto.Render(" + style + ")", Format: format, Via: "auto",
		Render:   func(t tabular.Table) (string, error) { return auto.Render(t, style) },
		RenderTo: func(t tabular.Table, w io.Writer) error { return auto.RenderTo(t, w, style) }}
}

// allTargets: base targets + every registered decoration by name + auto for every listed style.
func allTargets() []Target {
	ts := baseTargets()
	for _, n := range decoration.RegisteredDecorationNames() {
		ts = append(ts, namedTextTarget(n))
	}
	for _, s := range auto.ListStyles() {
		ts = append(ts, autoTarget(s))
	}
	return ts
}

// renderBoth runs Render and RenderTo of a target under recover.
type RenderResult struct {
	Out      string
	Err      error
	Panicked bool
	PanicVal interface{}
	Site     string
	// RenderTo
	ToOut      string
	ToErr      error
	ToPanicked bool
	ToPanicVal interface{}
	ToSite     string
}

func renderBoth(tg Target, t tabular.Table) (r RenderResult) {
	r.Panicked, r.PanicVal, r.Site = Safe(func() { r.Out, r.Err = tg.Render(t) })
	var buf bytes.Buffer
	r.ToPanicked, r.ToPanicVal, r.ToSite = Safe(func() { r.ToErr = tg.RenderTo(t, &buf) })
	r.ToOut = buf.String()
	return
}
