package main

import (
	"fmt"
	"go.pennock.tech/tabular"
	"html"
	"regexp"
	"strings"
	"time"

	"go.pennock.tech/tabular/markdown"
	"go.pennock.tech/tabular/properties/align"
)

// C08 — Markdown output keeps GFM table structure and neutralises cell content.

var c08Atoms = []string{`|`, `\`, `\|`, `a|b`, "a\nb", `<b>`, `&`, `&amp;`, `&#x7c;`, `"`, `'`, " x ", "ｗ", "", `a\`, "&x;", "\n", "*_`[]()", "\xff", "a\xc3"}

func init() {
	register(&Check{
		ID:        "C08",
		Level:     "exploration",
		Technique: "bounded exhaustive input enumeration (hostile atoms and all ordered pairs in every cell position; all small shapes; all alignment assignments) rendered by the real code and re-read by an independent GFM row splitter",
		Rule: "family lifecycle: one table and one long-lived wrapper, every sequence of <=4 (thorough 5) in-place modifications (items mutated + Update, headers replaced, rows grown, alignment of column 0/1/2 changed), Render and failed RenderTo, each Render judged against the current content; family hostile-text: each of 18 atoms and every ordered pair, in 6 positions (header/body x first/middle/last of 3 columns); family shapes: header 0..3 cells (first/last) or none, <=2 rows (thorough <=3) of sep|0..3 cells, texts from {serial, empty, pipe+newline}; " +
			"family alignment: every assignment of {unset,left,right,centre} to column 0 and each of <=3 columns (4^4) x 3 shapes; non-trivial = text needing escape, anomalous shape, or a non-default alignment; distinct by input",
		Assumptions: []string{"texts are free of carriage returns (documented non-goal)", "a pipe is 'unescaped' unless directly preceded by a backslash", "padding inside cells is not asserted"},
		QuickBudget: 90 * time.Second, ThoroughBudget: 15 * time.Minute,
		Run: runC08,
	})
}

var c08Entity = regexp.MustCompile(`^&(amp|lt|gt|quot|apos|#[0-9]+|#[xX][0-9a-fA-F]+);`)
var c08Delim = regexp.MustCompile(`^(:?)-{3,}(:?)$`)

// splitUnescapedPipes splits a line on pipes not preceded by a backslash.
func splitUnescapedPipes(line string) (parts []string, npipes int) {
	start := 0
	for i := 0; i < len(line); i++ {
		if line[i] == '|' && (i == 0 || line[i-1] != '\\') {
			parts = append(parts, line[start:i])
			start = i + 1
			npipes++
		}
	}
	parts = append(parts, line[start:])
	return
}

type c08Input struct {
	g      *Grid
	aligns []interface{} // index 0 = column 0 default; nil = unset
}

func alignName(a interface{}) string {
	switch a {
	case nil:
		return "unset"
	case align.Left:
		return "left"
	case align.Right:
		return "right"
	case align.Center:
		return "centre"
	}
	return fmt.Sprint(a)
}

func c08Check(x *X, c *Chooser, in *c08Input, extraTags []string) {
	g := in.g
	t := markdown.New()
	g.Build(t)
	var ad []string
	for col, a := range in.aligns {
		if a == nil {
			continue
		}
		if cp := t.Column(col); cp != nil {
			cp.SetProperty(align.PropertyType, a)
			ad = append(ad, fmt.Sprintf("col%d=%s", col, alignName(a)))
		}
	}
	c.Logf("markdown table: %s aligns %v", g, ad)
	tags := append(g.Tags(), extraTags...)
	var out string
	var err error
	if p, val, site := Safe(func() { out, err = t.Render() }); p {
		x.FailSite("C08.no_panic", append(tags, "panic"), site, "markdown Render panicked: %v on %s", val, g)
		return
	}
	c08Judge(x, in, tags, out, err)
}

// c08Judge applies the oracle to an output obtained for the table described by in.
func c08Judge(x *X, in *c08Input, tags []string, out string, err error) {
	g := in.g
	ncols := g.NCols()
	if !g.HasHeader || ncols == 0 {
		x.Clause("C08.refused")
		if err == nil || out != "" {
			x.Fail("C08.refused", tags, "table without headers or columns: Render returned (%q, %v), want error and no text; table %s", out, err, g)
		}
		x.Outcome("refused")
		return
	}
	x.Clause("C08.succeeds")
	if err != nil {
		x.Fail("C08.succeeds", tags, "markdown Render failed: %v on %s", err, g)
		return
	}
	recs := g.ExpectedRecords() // header + body rows, padded
	x.Clause("C08.line_count")
	if !strings.HasSuffix(out, "\n") {
		x.Fail("C08.line_count", tags, "output does not end with a newline: %q", out)
		return
	}
	lines := strings.Split(strings.TrimSuffix(out, "\n"), "\n")
	if len(lines) != len(recs)+1 {
		x.Fail("C08.line_count", tags, "%d lines, want %d (header, delimiter, one per non-separator row)\n%s\ntable %s", len(lines), len(recs)+1, out, g)
		return
	}
	for li, line := range lines {
		parts, np := splitUnescapedPipes(line)
		x.Clause("C08.pipes")
		if np != ncols+1 || strings.TrimSpace(parts[0]) != "" || strings.TrimSpace(parts[len(parts)-1]) != "" {
			x.Fail("C08.pipes", tags, "line %d %q has %d unescaped pipes (want %d, first and last delimiting the line)\n%s\ntable %s", li, line, np, ncols+1, out, g)
			return
		}
		cells := parts[1 : len(parts)-1]
		if li == 1 {
			for ci, cell := range cells {
				x.Clause("C08.delimiter")
				m := c08Delim.FindStringSubmatch(strings.Trim(cell, " "))
				if m == nil {
					x.Fail("C08.delimiter", tags, "delimiter cell %d %q is not :?---+:?\n%s", ci, cell, out)
					return
				}
				eff := interface{}(nil)
				if ci+1 < len(in.aligns) && in.aligns[ci+1] != nil {
					eff = in.aligns[ci+1]
				} else if len(in.aligns) > 0 {
					eff = in.aligns[0]
				}
				lead, trail := m[1] == ":", m[2] == ":"
				ok := false
				switch eff {
				case nil, align.Left:
					ok = !trail
				case align.Right:
					ok = trail && !lead
				case align.Center:
					ok = lead && trail
				}
				x.Clause("C08.delimiter_alignment")
				if !ok {
					tg := tags
					if (ci+1 >= len(in.aligns) || in.aligns[ci+1] == nil) && len(in.aligns) > 0 && in.aligns[0] != nil {
						tg = append(tg, "alignment_only_on_column0")
					}
					x.Fail("C08.delimiter_alignment", tg, "column %d effective alignment %s (own %s, column-0 default %s) but delimiter cell is %q\n%s", ci+1, alignName(eff),
						alignName(alignAt(in.aligns, ci+1)), alignName(alignAt(in.aligns, 0)), cell, out)
					return
				}
			}
			continue
		}
		ri := li
		if li > 1 {
			ri = li - 1
		}
		for ci, cell := range cells {
			want := recs[ri][ci]
			x.Clause("C08.cell_text")
			if got := html.UnescapeString(strings.Trim(cell, " ")); got != strings.Trim(want, " ") {
				x.Fail("C08.cell_text", tags, "line %d cell %d is %q which decodes to %q, cell text is %q\n%s\ntable %s", li, ci, cell, got, want, out, g)
				return
			}
			x.Clause("C08.neutralised")
			for i := 0; i < len(cell); i++ {
				switch cell[i] {
				case '<', '>', '"', '\'', '\n':
					x.Fail("C08.neutralised", tags, "line %d cell %d %q contains raw %q\n%s\ntable %s", li, ci, cell, cell[i], out, g)
					return
				case '&':
					if !c08Entity.MatchString(cell[i:]) {
						x.Fail("C08.neutralised", tags, "line %d cell %d %q contains an ampersand that does not start a character reference\n%s\ntable %s", li, ci, cell, out, g)
						return
					}
				}
			}
		}
	}
	x.Outcome(fmt.Sprintf("ok %d lines %d cols", len(lines), ncols))
}

func alignAt(a []interface{}, i int) interface{} {
	if i < len(a) {
		return a[i]
	}
	return nil
}

func runC08(x *X) {
	runC08Items(x)
	runC08ByHand(x)
	var texts []string
	texts = append(texts, c08Atoms...)
	for _, a := range c08Atoms {
		for _, b := range c08Atoms {
			texts = append(texts, a+b)
		}
	}
	positions := []struct {
		name   string
		header bool
		col    int
	}{{"header first", true, 0}, {"header middle", true, 1}, {"header last", true, 2}, {"body first", false, 0}, {"body middle", false, 1}, {"body last", false, 2}}
	x.Explore("hostile-text", ExploreOpts{ShardDepth: 2, Bound: fmt.Sprintf("6 positions x %d texts (atoms and ordered pairs)", len(texts))}, func(c *Chooser) {
		p := positions[c.Choose(len(positions))]
		s := texts[c.Choose(len(texts))]
		g := &Grid{HasHeader: true, Header: []string{"h1", "h2", "h3"}, Rows: []GridRow{{Cells: []string{"c1", "c2", "c3"}}, {Cells: []string{"d1"}}}}
		if p.header {
			g.Header[p.col] = s
		} else {
			g.Rows[0].Cells[p.col] = s
		}
		c.Logf("position=%s text=%q", p.name, s)
		x.Transition(1)
		x.Nontrivial(p.name + "\x00" + s)
		c08Check(x, c, &c08Input{g: g}, []string{"position:" + p.name})
	})
	pool := []string{"", "", "p|\nq"}
	x.Explore("shapes", ExploreOpts{ShardDepth: 2, Bound: fmt.Sprintf("header none/0..3 (first/last), <=%d rows of sep|0..3 cells, texts from a 3-pool", x.Pick(2, 3))}, func(c *Chooser) {
		g := ChooseShape(c, ShapeCfg{MaxRows: x.Pick(2, 3), MaxCells: 3, Header: []int{-1, 0, 1, 2, 3}, Sep: true, HeaderLast: true})
		n := 0
		g.EachCell(func(kind string, row, col int, p *string) {
			n++
			k := c.Choose(len(pool))
			if k == 0 {
				*p = fmt.Sprintf("c%d", n)
			} else {
				*p = pool[k]
			}
		})
		x.Transition(1 + len(g.Rows))
		if g.Nontrivial() {
			x.Nontrivial(g.String())
		}
		x.State(g.ShapeKey())
		c08Check(x, c, &c08Input{g: g}, nil)
	})
	x.Explore("huge-declared-width", ExploreOpts{Bound: "an item declaring a display width of 2^16 or 2^20+5 cells next to short cells x 3 alignments"}, func(c *Chooser) {
		w := []int{1 << 16, 1<<20 + 5}[c.Choose(2)]
		al := []interface{}{nil, align.Right, align.Center}[c.Choose(3)]
		it, _ := mkItem(mS|mW, false, ItemF{S: "big", W: w})
		t := markdown.New()
		t.AddHeaders("h1", "h2")
		t.AddRowItems(it, "x")
		t.AddRowItems("tiny", "y")
		if al != nil {
			t.Column(1).SetProperty(align.PropertyType, al)
		}
		g := &Grid{HasHeader: true, Header: []string{"h1", "h2"}, Rows: []GridRow{{Cells: []string{"big", "x"}}, {Cells: []string{"tiny", "y"}}}}
		c.Logf("markdown table with an item declaring TerminalCellWidth()=%d, column 1 alignment %s", w, alignName(al))
		var out string
		var err error
		if p, val, site := Safe(func() { out, err = t.Render() }); p {
			x.FailSite("C08.no_panic", []string{"panic", "huge_declared_width"}, site, "markdown Render panicked: %v", val)
			return
		}
		x.Transition(1)
		x.Nontrivial(fmt.Sprint(w, alignName(al)))
		c08Judge(x, &c08Input{g: g, aligns: []interface{}{nil, al}}, []string{"huge_declared_width"}, out, err)
	})
	long := LongTexts("|")
	x.Explore("long-texts", ExploreOpts{ShardDepth: 2, Bound: fmt.Sprintf("6 positions x %d long texts (63..1025 bytes, with a pipe in the middle/at the end, multi-byte, 40 lines)", len(long))}, func(c *Chooser) {
		p := positions[c.Choose(len(positions))]
		s := long[c.Choose(len(long))]
		g := &Grid{HasHeader: true, Header: []string{"h1", "h2", "h3"}, Rows: []GridRow{{Cells: []string{"c1", "c2", "c3"}}, {Cells: []string{"d1"}}}}
		if p.header {
			g.Header[p.col] = s
		} else {
			g.Rows[0].Cells[p.col] = s
		}
		c.Logf("position=%s text of %d bytes", p.name, len(s))
		x.Transition(1)
		x.Nontrivial(fmt.Sprint(p.name, len(s), hashStr(s)))
		c08Check(x, c, &c08Input{g: g}, []string{"position:" + p.name, "long_text"})
	})
	ldepth := x.Pick(4, 5)
	lops := lifeOps(true, false)
	x.Explore("lifecycle", ExploreOpts{ShardDepth: 2, Bound: fmt.Sprintf("one table + one long-lived markdown wrapper: all sequences of <=%d operations over %d in-place modifications/alignment changes, Render, failed RenderTo", ldepth, len(lops))}, func(c *Chooser) {
		lifecycle(x, c, "C08", ldepth, lops, false, func(t tabular.Table) lifeRenderer { return markdown.Wrap(t) },
			func(m *lifeModel, tags []string, out string, err error) {
				c08Judge(x, &c08Input{g: m.grid(), aligns: m.aligns}, tags, out, err)
			})
	})
	wide := WideGrids()
	x.Explore("wide", ExploreOpts{Bound: "1 table of 56 rows and 4 tables of 10-13 columns x one hostile text / one alignment in each column position in turn"}, func(c *Chooser) {
		g0 := wide[c.Choose(len(wide))]
		g := &Grid{HasHeader: g0.HasHeader, Header: append([]string{}, g0.Header...), HeaderLast: g0.HeaderLast}
		for _, r := range g0.Rows {
			g.Rows = append(g.Rows, GridRow{Sep: r.Sep, Cells: append([]string{}, r.Cells...)})
		}
		n := g.NCols()
		col := c.Choose(n + 1)
		in := &c08Input{g: g, aligns: make([]interface{}, n+1)}
		if col > 0 {
			g.EachCell(func(kind string, row, cl int, p *string) {
				if cl == col-1 {
					*p = "p|\n<" + *p
				}
			})
			in.aligns[col] = []interface{}{align.Right, align.Center, align.Left}[c.Choose(3)]
		}
		x.Transition(1)
		x.Nontrivial(fmt.Sprint(g.ShapeKey(), col))
		c08Check(x, c, in, []string{"ten_or_more_columns"})
	})
	avals := []interface{}{nil, align.Left, align.Right, align.Center}
	ashapes := []*Grid{
		{HasHeader: true, Header: []string{"h1", "h2", "h3"}, Rows: []GridRow{{Cells: []string{"a", "bbbbb", "c"}}, {Cells: []string{"dddd"}}}},
		{HasHeader: true, Header: []string{"h"}, Rows: []GridRow{{Cells: []string{"a", "b"}}, {Sep: true}, {Cells: []string{}}}},
		{HasHeader: true, Header: []string{"wide header", "x"}, Rows: nil},
	}
	x.Explore("alignment", ExploreOpts{ShardDepth: 2, Bound: "3 shapes x every assignment of {unset,left,right,centre} to column 0 and each column"}, func(c *Chooser) {
		si := c.Choose(len(ashapes))
		g := ashapes[si]
		n := g.NCols()
		in := &c08Input{g: g, aligns: make([]interface{}, n+1)}
		nd := false
		for i := 0; i <= n; i++ {
			in.aligns[i] = avals[c.Choose(len(avals))]
			if in.aligns[i] != nil {
				nd = true
			}
		}
		x.Transition(n + 1)
		if nd {
			var d []string
			for _, a := range in.aligns {
				d = append(d, alignName(a))
			}
			x.Nontrivial(fmt.Sprint(si, d))
		}
		c08Check(x, c, in, []string{"alignment_family"})
	})
}
