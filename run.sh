#!/bin/sh
# usage: run.sh <ID> <tier>   — rebuilds the harness against /repo's working tree, then runs the check
export GOFLAGS=-mod=mod GOPROXY=off GOSUMDB=off GOTOOLCHAIN=local
cd /verif/mc || exit 2
mkdir -p /verif/bin
cmp -s /repo/go.sum go.sum || cp /repo/go.sum go.sum
if ! go build -o /verif/bin/mc.$$ . 2>/verif/bin/build.$$.err; then
  echo "harness: build against /repo working tree failed:" >&2
  cat /verif/bin/build.$$.err >&2
  rm -f /verif/bin/build.$$.err /verif/bin/mc.$$
  exit 2
fi
rm -f /verif/bin/build.$$.err
mv -f /verif/bin/mc.$$ /verif/bin/mc
if [ "$1" = replay ]; then exec /verif/bin/mc replay "$2"; fi
exec /verif/bin/mc check "$1" --tier "${2:-quick}"
