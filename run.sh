#!/bin/sh
# usage: run.sh <ID> <tier>   — rebuilds the harness against /repo's working tree, then runs the check
# (experiments only: VERIF_ALT_REPO=<scratch copy of the repository> builds and runs against that copy instead,
#  with evidence/replays/scratch under /verif/.work/alt-*; the registered commands never set it)
export GOFLAGS=-mod=mod GOPROXY=off GOSUMDB=off GOTOOLCHAIN=local
cd /verif/mc || exit 2
mkdir -p /verif/bin
if [ -n "$VERIF_ALT_REPO" ]; then
  A=/verif/.work/alt-$(echo "$VERIF_ALT_REPO" | md5sum | cut -c1-10)
  mkdir -p $A
  sed "s#=> /repo#=> $VERIF_ALT_REPO#" go.mod > $A/go.mod
  cp $VERIF_ALT_REPO/go.sum $A/go.sum
  export VERIF_ALT_MODFILE=$A/go.mod VERIF_ALT_OUT=$A
  go build -modfile=$A/go.mod -o $A/mc . || exit 2
  if [ "$1" = replay ]; then exec $A/mc replay "$2"; fi
  exec $A/mc check "$1" --tier "${2:-quick}"
fi
cmp -s /repo/go.sum go.sum || cp /repo/go.sum go.sum
if ! go build -o /verif/bin/mc.$$ . 2>/verif/bin/build.$$.err; then
  echo "harness: build against /repo working tree failed:" >&2
  cat /verif/bin/build.$$.err >&2
  rm -f /verif/bin/build.$$.err /verif/bin/mc.$$
  exit 2
fi
rm -f /verif/bin/build.$$.err
mv -f /verif/bin/mc.$$ /verif/bin/mc
if [ "$1" = replay ]; then exec /verif/bin/mc replay "$2"; fi
exec /verif/bin/mc check "$1" --tier "${2:-quick}"
