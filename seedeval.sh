#!/bin/bash
# usage: seedeval.sh <mutant-source-dir (containing patch.diff, demo_test.go, NOTES.md)> <seed-id> <property> [all]
# 1. confirms the seeded change in a scratch worktree (builds, repo tests pass, demo fails with / passes without)
# 2. applies it to /repo, runs the owning check (quick), reverts /repo
# 3. records everything in /verif/seeded/<seed-id>/meta.json
export GOFLAGS=-mod=mod GOPROXY=off GOSUMDB=off GOTOOLCHAIN=local
src=$1; id=$2; prop=$3; mode=$4
dst=/verif/seeded/$id
mkdir -p $dst
cp $src/patch.diff $dst/patch.diff; cp $src/demo_test.go $dst/demo_test.go 2>/dev/null; cp $src/NOTES.md $dst/NOTES.md 2>/dev/null
place=$(grep -m1 -o 'place in: *[^ ]*' $dst/demo_test.go | sed 's/place in: *//; s/`//g')
[ -z "$place" ] && place=.
place=${place%/}
[ "$place" = "" ] && place=.
scratch=/tmp/sv-$id
git -C /repo worktree remove --force $scratch 2>/dev/null
git -C /repo worktree add -q $scratch HEAD || exit 2
cd $scratch
applies=no; builds=no; suite=fail; demo_with=unknown; demo_without=unknown
if git apply $dst/patch.diff 2>$dst/apply.err; then applies=yes; fi
if [ $applies = yes ] && go build ./... 2>/dev/null; then builds=yes; fi
if [ $builds = yes ]; then
  if go test -vet=off -count=1 ./... >$dst/suite.log 2>&1; then suite=pass; fi
  mkdir -p $place; cp $dst/demo_test.go $place/zz_seed_demo_test.go
  if (cd $place && go test -vet=off -count=1 -run . . >$dst/demo_with.log 2>&1); then demo_with=pass; else demo_with=fail; fi
  rm -f $place/zz_seed_demo_test.go
  git checkout -q -- . ; git clean -fdq -e MUTANT
  mkdir -p $place; cp $dst/demo_test.go $place/zz_seed_demo_test.go
  if (cd $place && go test -vet=off -count=1 -run . . >$dst/demo_without.log 2>&1); then demo_without=pass; else demo_without=fail; fi
  rm -f $place/zz_seed_demo_test.go
fi
cd /verif
# run the check(s) with the patch: against /repo (apply, run, revert), or - SEEDEVAL_ALT=1 - against the scratch
# worktree itself (harness built with a -modfile pointing there; /repo and /verif/evidence stay untouched, so
# several seeds can be evaluated at once)
caught=""; results=""
if [ -n "$SEEDEVAL_ALT" ] && [ $builds = yes ]; then
  (cd $scratch && git apply $dst/patch.diff)
  export VERIF_ALT_REPO=$scratch
else
  git -C /repo worktree remove --force $scratch
fi
if [ $builds = yes ]; then
  [ -z "$SEEDEVAL_ALT" ] && git -C /repo apply $dst/patch.diff
  props="$prop"
  [ "$mode" = all ] && props="C01 C02 C03 C04 C05 C06 C07 C08 C09 C10 C11 C12 C13 C14 C15 C16 C17 C18 C19"
  [ -n "$mode" ] && [ "$mode" != all ] && props="$mode"
  for p in $props; do
    out=$(/verif/run.sh $p quick 2>&1); rc=$?
    results="$results $p:rc=$rc"
    if [ $rc = 1 ]; then caught="$caught $p"; echo "$out" | grep -A3 '^VIOLATION' | head -8 > $dst/violation-$p.txt; fi
    if [ $rc != 0 ] && [ $rc != 1 ]; then echo "$out" | tail -20 > $dst/harness-error-$p.txt; fi
  done
  if [ -z "$SEEDEVAL_ALT" ]; then
    git -C /repo checkout -q -- .
    git -C /repo status --short | grep -v '^??' && echo "WARNING: /repo not clean"
  fi
fi
if [ -n "$SEEDEVAL_ALT" ]; then
  A=/verif/.work/alt-$(echo "$scratch" | md5sum | cut -c1-10)
  rm -rf $A
  git -C /repo worktree remove --force $scratch 2>/dev/null
  unset VERIF_ALT_REPO
fi
python3 - "$id" "$prop" "$applies" "$builds" "$suite" "$demo_with" "$demo_without" "$caught" "$results" "$place" <<'PY'
import json,sys
id,prop,applies,builds,suite,dw,dwo,caught,results,place=sys.argv[1:]
valid = applies=='yes' and builds=='yes' and suite=='pass' and dw=='fail' and dwo=='pass'
meta={"seed_id":id,"breaks_property":prop,"patch_applies":applies,"builds":builds,"repo_test_suite_with_patch":suite,
 "demo_with_patch":dw,"demo_without_patch":dwo,"demo_placed_in":place,"valid_seed":valid,
 "checks_run_quick":results.split(),"caught_by":caught.split(),
 "what_it_needs":"see NOTES.md (written by the independent sub-agent that produced the change)",
 "commands":["git worktree add <scratch> HEAD; git apply patch.diff; go build ./...; go test -vet=off -count=1 ./...  (suite)",
             "copy demo_test.go into <demo_placed_in>; go test -run . .   (with patch, then after git checkout without patch)",
             "git -C /repo apply patch.diff; /verif/run.sh <property> quick; git -C /repo checkout -- ."]}
import os
p=f"/verif/seeded/{id}/meta.json"
if os.path.exists(p):
    try:
        old=json.load(open(p))
        for k in ("note","caught_by_after_strengthening"):
            if k in old: meta[k]=old[k]
    except Exception: pass
json.dump(meta,open(p,"w"),indent=1)
print(id,"valid" if valid else "INVALID", "suite",suite,"demo with/without",dw,dwo,"| caught by:",caught or "NONE","|",results)
PY
