#!/bin/bash
# usage: benignregress.sh "<checks>" ["<seeded/benign-dirs>"]  — applies every kept benign patch to /repo in turn and runs the given checks (quick); all must stay quiet
checks=${1:-"C01 C02 C03 C04 C05 C06 C07 C08 C09 C10 C11 C12 C13 C14 C15 C16 C17 C18 C19"}
cd /verif
for d in ${2:-seeded/benign-*}; do
  b=$(basename $d)
  git -C /repo apply /verif/$d/patch.diff 2>/dev/null || { echo "$b: patch does not apply"; continue; }
  res=""
  for p in $checks; do
    out=$(/verif/run.sh $p quick 2>&1); rc=$?
    [ $rc != 0 ] && res="$res $p:rc=$rc"
  done
  git -C /repo checkout -q -- . ; git -C /repo clean -fdq
  echo "$b: ${res:-all quiet}"
done
