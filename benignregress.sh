#!/bin/bash
# re-runs every kept property-preserving patch against all 19 checks (quick), 3 at a time, in experiment mode
export BENIGN_ALT=1
ls -d /verif/seeded/benign-*/ | xargs -P ${1:-3} -I{} sh -c 'd={}; id=$(basename $d); id=${id#benign-}; /verif/benigneval.sh $d $id 2>&1 | tail -1'
