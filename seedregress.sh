#!/bin/bash
# re-evaluates every kept seed against its owning check (quick): detection regression test.
# Runs in experiment mode (each seed in its own scratch worktree, 4 at a time); /repo's working tree is not touched.
export SEEDEVAL_ALT=1
ls -d /verif/seeded/C*-*/ | xargs -P ${1:-4} -I{} sh -c 'd={}; id=$(basename $d); prop=$(python3 -c "import json;print(json.load(open(\"$d/meta.json\"))[\"breaks_property\"])"); /verif/seedeval.sh $d $id $prop 2>&1 | tail -1'
