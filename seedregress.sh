#!/bin/bash
# re-evaluates every kept seed against its owning check (quick): detection regression test
for d in /verif/seeded/C*-*/; do
  id=$(basename $d); prop=$(python3 -c "import json;print(json.load(open('$d/meta.json'))['breaks_property'])")
  /verif/seedeval.sh $d $id $prop 2>&1 | tail -1
done
