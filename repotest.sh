#!/bin/sh
# runs the repository's own test suite (baseline command) against /repo's working tree
export GOFLAGS=-mod=mod GOPROXY=off GOSUMDB=off GOTOOLCHAIN=local
cd "${1:-/repo}" && go build ./... && go test -vet=off -count=1 ./... 2>&1
