#!/bin/bash
# re-runs the older property-preserving patches (rounds 1-4) against the check that owns their property plus the
# four broadest checks (C09, C14, C16, C17); meta.json files (which record the full 19-check evaluation) are not rewritten
export BENIGN_ALT=1 BENIGN_NOMETA=1
ls -d /verif/seeded/benign-*/ | grep -v -- '-r5/' | xargs -P ${1:-4} -I{} sh -c 'd={}; id=$(basename $d); id=${id#benign-}; own=$(echo $id | cut -c2-3); BENIGN_CHECKS="$own 09 14 16 17" /verif/benigneval.sh $d $id 2>&1 | tail -1'
