#!/usr/bin/env python3
# Generates /verif/MANIFEST.json from the table below (kept in one place so that it stays valid).
import json
ALL=[f"C{n:02d}" for n in range(1,20)]
CHECKS={
 "C18": dict(cat="exploration", tech="bounded exhaustive input enumeration against the real code (all strings over a 10-atom alphabet up to length 5/7), property clauses as oracle",
   text="Every string over a 10-atom alphabet chosen for the metric code's corner cases (LF, ASCII, multi-byte, lone combining, double-width, zero-width, ZWJ emoji sequence, invalid byte, TAB) up to length 5 (quick) or 7 (thorough) is enumerated completely and run through length.*, tabular.NewCell and a one-cell text-table render; the statement's four clauses are checked on each. Exhaustive within the bound, no sampling.",
   note="Trusts go-runewidth as the definition of display width (the property says so); strings beyond the bound/alphabet not covered; environment pinned to RUNEWIDTH_EASTASIAN=0 LC_ALL=C.", ref="DESIGN.md §2 C18"),
 "C02": dict(cat="model_checking", tech="bounded exhaustive exploration of build-operation sequences on the real table (stateless DFS, every sequence replayed from the empty table), step-by-step comparison with a reference model",
   text="All sequences of the table-building operations (header/row adds with 0,1,2,3,11 cells, separators, AppendNewRow, detached rows built before attach, Row.Add before AND after attach, Add on separator rows, mutation of the AllRows copy) up to depth 5 (quick) / 6-7 (thorough) are executed against the real ATable; after every step NRows, NColumns, AllRows order/identity, Headers, CellAt over the whole index rectangle incl. out-of-range, Cell/Row Location and Column(n) existence are compared with a 15-line reference model. Exhaustive within the depth bound.",
   note="Rows attached at most once; narrower re-header may keep the larger column count (statement silent); depth bound.", ref="DESIGN.md §2 C02"),
 "C09": dict(cat="model_checking", tech="bounded exhaustive exploration of build-operation sequences; after every prefix every renderer/style/entry point is executed under recover()",
   text="All build sequences over the table-building alphabet with cells drawn from a pool of text-like items (empty, nil, multi-line, declared height/width disagreeing with the text, negative sizes) to depth 3-4 (quick) / 4-6 (thorough), plus anomalous suffixes after every prefix of a long regular build; after each, ~28 render targets (5 renderers via wrapper method, package function and auto style; every registered decoration, custom, unknown) run Render and RenderTo. Oracle: no panic; error implies empty text; Render and RenderTo agree on failure.",
   note="Text-like items only; the quantifier's 'random longer sequences' are replaced by systematic long families (no sampling); output content is judged by C03-C08.", ref="DESIGN.md §2 C09"),
}
PENDING_REASON="check not built yet in this session (planned: bounded exhaustive exploration, see DESIGN.md §2); not claimed until its harness exists"
m={"version":1,
 "setup_cmd":"cd /verif/mc && cp /repo/go.sum go.sum && GOFLAGS=-mod=mod GOPROXY=off GOSUMDB=off GOTOOLCHAIN=local go build -o /verif/bin/mc .",
 "hooks":{"guard":"verif_overlay","enable":"no source hooks are committed to /repo: checks link the harness against /repo's working tree (go.mod replace) and, for the scheduler checks, build it through a go build -overlay generated from the working tree at check time",
   "baseline_off_cmd":"cd /repo && GOFLAGS=-mod=mod GOPROXY=off go test -vet=off -count=1 ./...","source_commits":[],"add_only":True},
 "engines":[{"name":"mc","path":"/verif/mc","serves_properties":sorted(CHECKS),"kind_free_text":"hand-written stateless explorer: depth-first enumeration of choice trees (operation sequences, inputs, writer faults, schedules) executed on the real code, sharded over 16 processes, reference models as oracles"}],
 "checks":[], "not_applicable":[],
 "notes":"All checks: /verif/run.sh <ID> <tier> rebuilds /verif/mc against /repo's working tree and runs `mc check`. Known findings: /verif/known_findings.json."}
for cid in ALL:
    if cid in CHECKS:
        c=CHECKS[cid]
        m["checks"].append({"property_id":cid,"quick_cmd":f"/verif/run.sh {cid} quick","thorough_cmd":f"/verif/run.sh {cid} thorough",
          "evidence_file":f"/verif/evidence/{cid}.json","replay_cmd_template":"/verif/bin/mc replay {path}","engine":"mc",
          "level_claimed":{"category":c["cat"],"text":c["text"],"design_ref":c["ref"]},"level_note":c["note"],"technique":c["tech"]})
    else:
        m["not_applicable"].append({"property_id":cid,"reason":PENDING_REASON})
json.dump(m,open('/verif/MANIFEST.json','w'),indent=1)
print("wrote MANIFEST.json:",len(m["checks"]),"checks,",len(m["not_applicable"]),"not applicable")
